//! C19 — blob store returns the bytes that were stored and never collects live data.
//!
//! Part S  (E4, input domain): every chunk size x content size around the chunk boundaries x every
//!          split of the content into <=3 `write` calls (empty writes included): the streamed
//!          artifact reads back exactly, verifies, and a `put` of the same bytes adds no chunk.
//! Part Q  (E4, sequences): BFS over put / open-writer / write(piece) / finish / abandon / delete /
//!          gc / full_gc / repair (chunk size 4, <=3 artifacts incl. one in-flight writer), dedup on
//!          the canonical store state. After every step: every live artifact reads back (get,
//!          streaming reader, verify, reader.verify, metadata size, stats, list). On every new state,
//!          destructive probes on the discarded execution: single-chunk alteration/removal must make
//!          `verify` report; gc and full_gc must keep every live artifact; deleting the artifacts one
//!          by one (+gc) must keep the remaining ones; after the last delete full_gc leaves no chunk.
//! Part P  (E4, option space): artifact #0 written with every combination of PutOptions (content type not
//!          given / "" / custom; tags none / one / two / duplicate; links none / one / duplicate; custom
//!          metadata; created_by; filename; embedding none / dense / sparse; quick tier: a stated sub-product)
//!          by put and by the streaming writer, next to a plain artifact sharing two of its three chunks, on
//!          stores whose default content type is the default / "" / custom (and gc_min_age 0);
//!          then every sequence of delete / gc / full_gc / repair until no new state appears. A delete
//!          that returns an error is an observation: if the artifact still exists it stays in the reference
//!          (and may be deleted again); every successful delete is repeated once.
//! Part O  (E4, sequences): calls that rewrite the metadata record of #0 (update_metadata content type "" /
//!          custom, filename + custom set/delete, set_meta, tag / untag, link / unlink present and absent,
//!          set_embedding) interleaved with delete / gc / full_gc / repair, depth-bounded BFS; every new state
//!          is drained as in part Q (a failing delete is retried once).
//! Part C  (E4, input domain): max_artifact_size {1,4,5,8} x max_artifacts {-,1} x put / stream x 4 contents:
//!          a refused write leaves the existing artifact readable and nothing behind after the drain.
//! Part E1 (concurrent): real threads under vsched (every parking_lot acquisition inside /repo is a
//!          scheduling point), all schedules with <= bound preemptions: writers || deleters || gc /
//!          full_gc over overlapping content. At quiescence every existing artifact reads back; then
//!          the same sequential drain as in part Q.
//!
//! Reference oracle: the bytes handed to put/write, nothing else.
use nvc::Report;
use rayon::prelude::*;
use serde::{Deserialize, Serialize};
use serde_json::{json, Value};
use std::cell::RefCell;
use std::collections::{BTreeMap, BTreeSet, HashSet};
use std::future::Future;
use std::rc::Rc;
use std::sync::{Arc, Mutex};
use std::task::{Context, Poll, Waker};
use tensor_blob::{BlobConfig, BlobStore, BlobWriter, MetadataUpdates, PutOptions};
use tensor_store::{ScalarValue, TensorData, TensorStore, TensorValue};

const CHUNK: usize = 4;
const T0: i64 = 1_700_000_000;
/// one second more than the default gc_min_age (60 s)
const AGE_MS: i64 = 61_000;

const SIG_FULLGC: &str = "c19:unfinished-upload:chunk-collected-by-full_gc";
const SIG_REPAIR: &str = "c19:unfinished-upload:refs-reset-by-repair";
const SIG_REFRACE: &str = "c19:refcount-race:live-chunk-collected";
/// a `delete` returned an error but the artifact still exists, and afterwards an existing artifact lost a chunk
const SIG_DELERR: &str = "c19:delete-fails-midway:refs-dropped-artifact-kept";

/// One `delete` as a client sees it. The statement does not say that delete succeeds, so an error is an
/// observation, not a verdict: whether the artifact still exists afterwards is read from `exists`.
#[derive(Clone, Copy, PartialEq, Eq, Debug)]
enum DelObs {
    /// Ok(())
    Deleted,
    /// Err, the artifact still exists (it stays in the reference and must keep reading back)
    ErrKept,
    /// Err, the artifact does not exist (any more)
    ErrGone,
}
fn delete_obs(b: &BlobStore, id: &str) -> (DelObs, String) {
    match now(b.delete(id)) {
        Ok(()) => (DelObs::Deleted, String::new()),
        Err(e) => match now(b.exists(id)) {
            Ok(true) => (DelObs::ErrKept, e.to_string()),
            _ => (DelObs::ErrGone, e.to_string()),
        },
    }
}

/// tensor_blob's API is `async` but contains no real suspension point (`clippy::unused_async`):
/// poll once with a no-op waker. `Pending` would mean a tokio primitive sits on the path, which the
/// scheduler cannot intercept — that is a machinery failure, not a verdict.
fn now<F: Future>(f: F) -> F::Output {
    let mut f = std::pin::pin!(f);
    let mut cx = Context::from_waker(Waker::noop());
    match f.as_mut().poll(&mut cx) {
        Poll::Ready(v) => v,
        Poll::Pending => {
            eprintln!("MACHINERY c19: a tensor_blob future suspended (real await on the path)");
            std::process::exit(2);
        }
    }
}

fn machinery(msg: &str) -> ! {
    eprintln!("MACHINERY c19: {msg}");
    std::process::exit(2);
}

// TensorStore::new() zero-fills tens of MB (embedding slab) and TensorStore::clear() re-maps a 64 MB
// blob-log segment (mmap/munmap serialises the worker threads), so a store is reused after deleting
// every key the blob layer wrote, through the real TensorStore::delete; emptiness is asserted.
thread_local! { static POOL: RefCell<Vec<TensorStore>> = const { RefCell::new(Vec::new()) }; }

fn take_store() -> TensorStore {
    match POOL.with(|p| p.borrow_mut().pop()) {
        Some(st) => {
            for k in st.scan("_blob:") {
                let _ = st.delete(&k);
            }
            if !st.is_empty() || !st.scan("_").is_empty() {
                machinery("recycled TensorStore is not empty");
            }
            st
        }
        None => TensorStore::new(),
    }
}

/// BlobStore on a pooled TensorStore; the store goes back to the pool of the dropping thread.
struct Blob {
    b: BlobStore,
}
impl std::ops::Deref for Blob {
    type Target = BlobStore;
    fn deref(&self) -> &BlobStore {
        &self.b
    }
}
impl Drop for Blob {
    fn drop(&mut self) {
        let st = self.b.store().clone();
        POOL.with(|p| {
            let mut p = p.borrow_mut();
            if p.len() < 4 {
                p.push(st);
            }
        });
    }
}

/// gc_batch_size of the stores built by `new_blob` (0 = the default of 100)
static GC_BATCH: std::sync::atomic::AtomicUsize = std::sync::atomic::AtomicUsize::new(0);
fn new_blob(chunk: usize) -> Blob {
    match now(BlobStore::new(take_store(), { let c = BlobConfig::new().with_chunk_size(chunk); match GC_BATCH.load(std::sync::atomic::Ordering::Relaxed) { 0 => c, b => c.with_gc_batch_size(b) } })) {
        Ok(b) => Blob { b },
        Err(e) => machinery(&format!("BlobStore::new failed: {e}")),
    }
}

fn s(b: &[u8]) -> String {
    String::from_utf8_lossy(b).into_owned()
}

fn t_int(t: &TensorData, f: &str) -> Option<i64> {
    match t.get(f) {
        Some(TensorValue::Scalar(ScalarValue::Int(i))) => Some(*i),
        _ => None,
    }
}
fn t_bytes(t: &TensorData, f: &str) -> Option<Vec<u8>> {
    match t.get(f) {
        Some(TensorValue::Scalar(ScalarValue::Bytes(b))) => Some(b.clone()),
        _ => None,
    }
}

/// (chunk data, stored reference count) of every chunk entry, sorted
fn chunk_table(b: &BlobStore) -> Vec<(String, i64)> {
    let mut v: Vec<(String, i64)> = b
        .store()
        .scan("_blob:chunk:")
        .into_iter()
        .filter_map(|k| b.store().get(&k).ok())
        .map(|t| (t_bytes(&t, "_data").map_or("<no data>".to_string(), |d| s(&d)), t_int(&t, "_refs").unwrap_or(-1)))
        .collect();
    v.sort();
    v
}

fn art_chunk_keys(b: &BlobStore, id: &str) -> Vec<String> {
    match b.store().get(&format!("_blob:meta:{id}")) {
        Ok(t) => match t.get("_chunks") {
            Some(TensorValue::Pointers(p)) => p.clone(),
            _ => vec![],
        },
        Err(_) => vec![],
    }
}

/// Everything the statement says about reading one existing artifact. `Err(kind)` on the first failure.
fn read_check(b: &BlobStore, id: &str, want: &[u8]) -> Result<(), String> {
    match now(b.exists(id)) {
        Ok(true) => {}
        other => return Err(format!("exists -> {other:?}")),
    }
    match now(b.get(id)) {
        Ok(got) if got == want => {}
        Ok(got) => return Err(format!("get -> {:?}, stored {:?}", s(&got), s(want))),
        Err(e) => return Err(format!("get -> Err({e})")),
    }
    match now(b.reader(id)) {
        Ok(mut r) => {
            let mut got = vec![];
            let mut buf = [0u8; 3];
            loop {
                match now(r.read(&mut buf)) {
                    Ok(0) => break,
                    Ok(n) => got.extend_from_slice(&buf[..n]),
                    Err(e) => return Err(format!("reader.read -> Err({e})")),
                }
                if got.len() > want.len() + 64 {
                    break;
                }
            }
            if got != want {
                return Err(format!("reader -> {:?}, stored {:?}", s(&got), s(want)));
            }
            match now(r.verify()) {
                Ok(true) => {}
                other => return Err(format!("reader.verify on intact artifact -> {other:?}")),
            }
        }
        Err(e) => return Err(format!("reader -> Err({e})")),
    }
    match b.verify(id) {
        Ok(true) => {}
        other => return Err(format!("verify on intact artifact -> {other:?}")),
    }
    match now(b.metadata(id)) {
        Ok(m) if m.size == want.len() => {}
        Ok(m) => return Err(format!("metadata.size {} != {}", m.size, want.len())),
        Err(e) => return Err(format!("metadata -> Err({e})")),
    }
    Ok(())
}

/// Integrity clause: every single-chunk alteration (4 kinds) and the removal of a chunk of artifact `id`
/// must be reported by `verify` and by the reader's `verify`; the chunk is restored afterwards.
fn integrity_probe(blob: &BlobStore, id: &str, bytes: &[u8], i: usize, evals: &mut u64, selftest: &str) -> Option<(String, String)> {
    let keys: BTreeSet<String> = art_chunk_keys(blob, id).into_iter().collect();
    for ck in keys {
        let Ok(orig) = blob.store().get(&ck) else { continue };
        let Some(data) = t_bytes(&orig, "_data") else { continue };
        let mut variants: Vec<(&str, Vec<u8>)> = vec![];
        let mut flipped = data.clone();
        flipped[0] ^= 0x01;
        variants.push(("first byte flipped", flipped));
        let mut last = data.clone();
        *last.last_mut().unwrap() ^= 0x20;
        variants.push(("last byte changed", last));
        variants.push(("one byte shorter", data[..data.len() - 1].to_vec()));
        let mut longer = data.clone();
        longer.push(data[0]);
        variants.push(("one byte longer", longer));
        if selftest == "verify" {
            variants.push(("unchanged (self-test)", data.clone()));
        }
        for (what, alt) in variants {
            let mut t = orig.clone();
            t.set("_data", TensorValue::Scalar(ScalarValue::Bytes(alt.clone())));
            let _ = blob.store().put(&ck, t);
            *evals += 2;
            let v = blob.verify(id);
            let rv = now(blob.reader(id)).ok().map(|mut r| now(r.verify()));
            let _ = blob.store().put(&ck, orig.clone());
            if v == Ok(true) || rv == Some(Ok(true)) {
                return Some(("c19:verify-misses-altered-chunk".into(), format!("artifact #{i} ({:?}), chunk {:?} {what} -> {:?}: verify -> {v:?}, reader.verify -> {rv:?}", s(bytes), s(&data), s(&alt))));
            }
        }
        let _ = blob.store().delete(&ck);
        *evals += 2;
        let v = blob.verify(id);
        let rv = now(blob.reader(id)).ok().map(|mut r| now(r.verify()));
        let _ = blob.store().put(&ck, orig.clone());
        if v == Ok(true) || rv == Some(Ok(true)) {
            return Some(("c19:verify-misses-missing-chunk".into(), format!("artifact #{i} ({:?}), chunk {:?} removed: verify -> {v:?}, reader.verify -> {rv:?}", s(bytes), s(&data))));
        }
    }
    None
}

// =================================================================================== Part S
#[derive(Default)]
struct PartS {
    cases: u64,
    contents: u64,
    evals: u64,
    multi_chunk_cases: u64,
    viol: Vec<(String, String, Value)>,
    viol_count: u64,
    sample: Option<Value>,
}

fn content_family(fam: u8, n: usize, cs: usize) -> Vec<u8> {
    // fam 0: one repeated byte (every full chunk identical); fam 1: chunks alternate a.., b.., a.., c..
    (0..n)
        .map(|i| match fam {
            0 => b'a',
            _ => [b'a', b'b', b'a', b'c'][(i / cs) % 4],
        })
        .collect()
}

fn part_s(thorough: bool, selftest: &str) -> PartS {
    let chunk_sizes: Vec<usize> = if thorough { vec![1, 2, 3, 4, 5, 7, 8] } else { vec![1, 2, 3, 4, 5, 8] };
    let mut jobs: Vec<(usize, u8, usize)> = vec![];
    for &cs in &chunk_sizes {
        let sizes: BTreeSet<usize> = if thorough {
            (0..=5 * cs + 2).collect()
        } else {
            [0, 1, cs.saturating_sub(1), cs, cs + 1, 2 * cs - 1, 2 * cs, 2 * cs + 1, 3 * cs + 1, 5 * cs + 2].into_iter().collect()
        };
        for n in sizes {
            for fam in 0..2u8 {
                if fam == 1 && n <= cs {
                    continue; // identical to family 0
                }
                jobs.push((cs, fam, n));
            }
        }
    }
    let parts: Vec<PartS> = jobs
        .par_iter()
        .map(|&(cs, fam, n)| {
            let mut r = PartS::default();
            r.contents += 1;
            let data = content_family(fam, n, cs);
            let want_chunks = n.div_ceil(cs);
            let distinct: BTreeSet<&[u8]> = data.chunks(cs).collect();
            for c1 in 0..=n {
                for c2 in c1..=n {
                    r.cases += 1;
                    if want_chunks > 1 {
                        r.multi_chunk_cases += 1;
                    }
                    let b = new_blob(cs);
                    let mut fail: Option<(String, String)> = None;
                    let id = (|| -> Result<String, String> {
                        let mut w = now(b.writer("f", PutOptions::new())).map_err(|e| e.to_string())?;
                        for piece in [&data[..c1], &data[c1..c2], &data[c2..]] {
                            now(w.write(piece)).map_err(|e| e.to_string())?;
                        }
                        now(w.finish()).map_err(|e| e.to_string())
                    })();
                    let id = match id {
                        Ok(id) => id,
                        Err(e) => machinery(&format!("streamed write failed on an idle store: {e}")),
                    };
                    let mut want = data.clone();
                    if selftest == "stream" && n == cs + 1 && c1 == 1 {
                        want[0] ^= 1;
                    }
                    r.evals += 1;
                    if let Err(e) = read_check(&b, &id, &want) {
                        fail = Some(("c19:stream:read-mismatch".into(), e));
                    }
                    if fail.is_none() {
                        let m = now(b.metadata(&id)).unwrap();
                        let table = chunk_table(&b);
                        r.evals += 1;
                        if m.chunk_count != want_chunks || table.len() != distinct.len() {
                            fail = Some(("c19:stream:chunking".into(), format!("chunk_count {} (want {want_chunks}), chunk entries {} (distinct contents {})", m.chunk_count, table.len(), distinct.len())));
                        }
                    }
                    // identical content stored once: a put of the same bytes adds no chunk entry
                    if fail.is_none() && n > 0 {
                        let before = chunk_table(&b).len();
                        match now(b.put("g", &data, PutOptions::new())) {
                            Ok(id2) => {
                                r.evals += 2;
                                let after = chunk_table(&b).len();
                                if after != before {
                                    fail = Some(("c19:dedup:identical-content-stored-twice".into(), format!("chunk entries {before} -> {after} after put of identical bytes")));
                                } else if let Err(e) = read_check(&b, &id2, &data).and_then(|()| read_check(&b, &id, &data)) {
                                    fail = Some(("c19:stream:read-mismatch".into(), format!("after put of identical bytes: {e}")));
                                } else {
                                    // delete the streamed one: the put one must survive gc and full_gc
                                    let _ = now(b.delete(&id));
                                    nvc::env::clock_advance_ms(AGE_MS);
                                    let _ = now(b.gc());
                                    let _ = now(b.full_gc());
                                    r.evals += 1;
                                    if let Err(e) = read_check(&b, &id2, &data) {
                                        fail = Some(("c19:delete-damages-sharing-artifact".into(), e));
                                    }
                                }
                            }
                            Err(e) => machinery(&format!("put failed on an idle store: {e}")),
                        }
                    }
                    if let Some((sig, msg)) = fail {
                        r.viol_count += 1;
                        if r.viol.len() < 2 {
                            let rj = json!({"part":"S","chunk_size":cs,"content":s(&data),"writes":[s(&data[..c1]), s(&data[c1..c2]), s(&data[c2..])]});
                            r.viol.push((sig, format!("chunk_size={cs} content={:?} writes at cuts ({c1},{c2}): {msg}", s(&data)), rj));
                        }
                    }
                    if r.sample.is_none() && fam == 1 && n == 3 * cs + 1 && c1 == 1 && c2 == cs + 2 {
                        r.sample = Some(json!({"part":"S","chunk_size":cs,"content":s(&data),"writes":[s(&data[..c1]), s(&data[c1..c2]), s(&data[c2..])],"chunks":want_chunks,"distinct_chunks":distinct.len()}));
                    }
                }
            }
            r
        })
        .collect();
    let mut t = PartS::default();
    for r in parts {
        t.cases += r.cases;
        t.contents += r.contents;
        t.evals += r.evals;
        t.multi_chunk_cases += r.multi_chunk_cases;
        t.viol_count += r.viol_count;
        for v in r.viol {
            if t.viol.iter().filter(|x| x.0 == v.0).count() < 3 {
                t.viol.push(v);
            }
        }
        if t.sample.is_none() {
            t.sample = r.sample;
        }
    }
    t
}

// =================================================================================== Part Q
const CONTENTS: [&str; 8] = ["a", "aaa", "aaaa", "bbbb", "aaaaa", "aaaaaaaa", "aaaabbbb", "aaaabbbba"];
const PIECES: [&str; 5] = ["a", "aaa", "aaaa", "bbbb", "aaaabbbb"];
const MAX_ARTS: usize = 3;
const MAX_WRITES: u8 = 3;
const TAINT_FULLGC: u8 = 1;
const TAINT_REPAIR: u8 = 2;
const TAINT_DELERR: u8 = 4;

#[derive(Clone, Copy, Debug, PartialEq, Eq, Hash, Serialize, Deserialize)]
enum Op {
    Put(u8),
    Open,
    W(u8),
    Finish,
    Abandon,
    Delete(u8),
    Gc,
    FullGc,
    Repair,
}
fn show(op: Op) -> String {
    match op {
        Op::Put(c) => format!("put({:?})", CONTENTS[c as usize]),
        Op::Open => "open_writer".into(),
        Op::W(p) => format!("write({:?})", PIECES[p as usize]),
        Op::Finish => "finish".into(),
        Op::Abandon => "drop_writer".into(),
        Op::Delete(i) => format!("delete(live#{i})"),
        Op::Gc => "clock+61s;gc".into(),
        Op::FullGc => "full_gc".into(),
        Op::Repair => "repair".into(),
    }
}
fn show_path(p: &[Op]) -> Vec<String> {
    p.iter().map(|o| show(*o)).collect()
}

struct Art {
    id: String,
    bytes: Vec<u8>,
    live: bool,
    taint: u8,
}
struct WriterSt {
    w: BlobWriter,
    written: Vec<u8>,
    n: u8,
    taint: u8,
}
struct World {
    blob: Blob,
    arts: Vec<Art>,
    writer: Option<WriterSt>,
    /// a collector ran while an upload with stored chunks was unfinished (known damage pattern):
    /// later failures in this history are attributed to it
    world_taint: u8,
    selftest_bytes: bool,
}

impl World {
    fn new(selftest: &str) -> World {
        World { blob: new_blob(CHUNK), arts: vec![], writer: None, world_taint: 0, selftest_bytes: selftest == "bytes" }
    }
    fn live(&self) -> Vec<usize> {
        (0..self.arts.len()).filter(|&i| self.arts[i].live).collect()
    }
    fn enabled(&self) -> Vec<Op> {
        let mut v = vec![];
        let live = self.live().len();
        let slots = live + usize::from(self.writer.is_some());
        if slots < MAX_ARTS {
            for c in 0..CONTENTS.len() {
                v.push(Op::Put(c as u8));
            }
            if self.writer.is_none() {
                v.push(Op::Open);
            }
        }
        if let Some(w) = &self.writer {
            if w.n < MAX_WRITES {
                for p in 0..PIECES.len() {
                    v.push(Op::W(p as u8));
                }
            }
            v.push(Op::Finish);
            v.push(Op::Abandon);
        }
        for i in 0..live {
            v.push(Op::Delete(i as u8));
        }
        v.push(Op::Gc);
        v.push(Op::FullGc);
        v.push(Op::Repair);
        v
    }
    /// run one operation on the real store and on the reference (the reference is `arts[..].bytes`)
    fn apply(&mut self, op: Op) {
        match op {
            Op::Put(c) => {
                let bytes = CONTENTS[c as usize].as_bytes().to_vec();
                match now(self.blob.put("f", &bytes, PutOptions::new())) {
                    Ok(id) => {
                        let mut want = bytes;
                        if self.selftest_bytes && want.len() == 5 {
                            want[4] = b'b'; // deliberately wrong expectation (oracle self-test)
                        }
                        self.arts.push(Art { id, bytes: want, live: true, taint: 0 })
                    }
                    Err(e) => machinery(&format!("put of non-empty data failed: {e}")),
                }
            }
            Op::Open => match now(self.blob.writer("f", PutOptions::new())) {
                Ok(w) => self.writer = Some(WriterSt { w, written: vec![], n: 0, taint: 0 }),
                Err(e) => machinery(&format!("writer() failed: {e}")),
            },
            Op::W(p) => {
                let ws = self.writer.as_mut().unwrap();
                let piece = PIECES[p as usize].as_bytes();
                if let Err(e) = now(ws.w.write(piece)) {
                    machinery(&format!("write failed: {e}"));
                }
                ws.written.extend_from_slice(piece);
                ws.n += 1;
            }
            Op::Finish => {
                let ws = self.writer.take().unwrap();
                match now(ws.w.finish()) {
                    Ok(id) => self.arts.push(Art { id, bytes: ws.written, live: true, taint: ws.taint }),
                    Err(e) => machinery(&format!("finish failed: {e}")),
                }
            }
            Op::Abandon => {
                self.writer = None;
            }
            Op::Delete(i) => {
                let idx = self.live()[i as usize];
                match delete_obs(&self.blob, &self.arts[idx].id).0 {
                    DelObs::Deleted | DelObs::ErrGone => self.arts[idx].live = false,
                    DelObs::ErrKept => {
                        self.arts[idx].taint |= TAINT_DELERR;
                        self.world_taint |= TAINT_DELERR;
                    }
                }
            }
            Op::Gc => {
                nvc::env::clock_advance_ms(AGE_MS);
                if let Err(e) = now(self.blob.gc()) {
                    machinery(&format!("gc failed: {e}"));
                }
            }
            Op::FullGc => {
                if let Err(e) = now(self.blob.full_gc()) {
                    machinery(&format!("full_gc failed: {e}"));
                }
                if let Some(ws) = self.writer.as_mut() {
                    if ws.written.len() >= CHUNK {
                        ws.taint |= TAINT_FULLGC;
                        self.world_taint |= TAINT_FULLGC;
                    }
                }
            }
            Op::Repair => {
                if let Err(e) = self.blob.repair() {
                    machinery(&format!("repair failed: {e}"));
                }
                if let Some(ws) = self.writer.as_mut() {
                    if ws.written.len() >= CHUNK {
                        ws.taint |= TAINT_REPAIR;
                        self.world_taint |= TAINT_REPAIR;
                    }
                }
            }
        }
    }
    fn replay(path: &[Op], selftest: &str) -> World {
        let mut w = World::new(selftest);
        for &op in path {
            w.apply(op);
        }
        w
    }
    /// canonical state: artifacts in creation order (content + chunk list as data), chunk table
    /// (data, refs), writer progress. Chunk age is irrelevant: `Gc` always advances the clock first.
    fn key(&self) -> (String, bool) {
        let mut k = String::new();
        for i in self.live() {
            let a = &self.arts[i];
            k.push_str(&s(&a.bytes));
            if a.taint != 0 {
                k.push_str(&format!("t{}", a.taint));
            }
            k.push('[');
            for ck in art_chunk_keys(&self.blob, &a.id) {
                match self.blob.store().get(&ck) {
                    Ok(t) => k.push_str(&t_bytes(&t, "_data").map_or("?".into(), |d| s(&d))),
                    Err(_) => k.push_str("<missing>"),
                }
                k.push(',');
            }
            k.push_str("];");
        }
        k.push('|');
        let table = chunk_table(&self.blob);
        let shared = table.iter().any(|(_, r)| *r >= 2);
        for (d, r) in &table {
            k.push_str(&format!("{d}:{r},"));
        }
        k.push('|');
        if let Some(w) = &self.writer {
            k.push_str(&format!("W{}:{}:t{}", w.n, s(&w.written), w.taint));
        }
        if self.world_taint != 0 {
            k.push_str(&format!("|T{}", self.world_taint));
        }
        (k, shared)
    }
    fn sig_for(&self, idx: usize, ctx: &str) -> String {
        let t = if self.arts[idx].taint != 0 { self.arts[idx].taint } else { self.world_taint };
        if (t | self.world_taint) & TAINT_DELERR != 0 {
            SIG_DELERR.into()
        } else if t & TAINT_FULLGC != 0 {
            SIG_FULLGC.into()
        } else if t & TAINT_REPAIR != 0 {
            SIG_REPAIR.into()
        } else {
            format!("c19:seq:{ctx}")
        }
    }
    /// non-destructive check of everything observable after a step
    fn step_check(&self, evals: &mut u64) -> Option<(String, String)> {
        let mut live_ids = BTreeSet::new();
        let mut total = 0usize;
        for (i, a) in self.arts.iter().enumerate() {
            *evals += 1;
            if a.live {
                live_ids.insert(a.id.clone());
                total += a.bytes.len();
                if let Err(e) = read_check(&self.blob, &a.id, &a.bytes) {
                    return Some((self.sig_for(i, "read-mismatch"), format!("artifact #{i} ({:?}): {e}", s(&a.bytes))));
                }
            } else {
                let ex = now(self.blob.exists(&a.id));
                let g = now(self.blob.get(&a.id));
                if ex != Ok(false) || g.is_ok() {
                    return Some(("c19:seq:deleted-artifact-readable".into(), format!("deleted artifact #{i}: exists -> {ex:?}, get ok = {}", g.is_ok())));
                }
            }
        }
        *evals += 1;
        match now(self.blob.stats()) {
            Ok(st) => {
                if st.artifact_count != live_ids.len() || st.total_bytes != total {
                    return Some(("c19:seq:stats".into(), format!("stats: {} artifacts / {} bytes, reference {} / {}", st.artifact_count, st.total_bytes, live_ids.len(), total)));
                }
            }
            Err(e) => machinery(&format!("stats failed: {e}")),
        }
        match now(self.blob.list(None)) {
            Ok(l) => {
                let got: BTreeSet<String> = l.into_iter().collect();
                if got != live_ids {
                    return Some(("c19:seq:list".into(), format!("list() = {} ids, reference {}", got.len(), live_ids.len())));
                }
            }
            Err(e) => machinery(&format!("list failed: {e}")),
        }
        // identical content is stored once
        let table = chunk_table(&self.blob);
        let distinct: BTreeSet<&String> = table.iter().map(|(d, _)| d).collect();
        if distinct.len() != table.len() {
            return Some(("c19:dedup:identical-content-stored-twice".into(), format!("chunk table {table:?}")));
        }
        None
    }
    fn check_live(&self, ctx: &str, evals: &mut u64) -> Option<(String, String)> {
        for i in self.live() {
            let a = &self.arts[i];
            *evals += 1;
            if let Err(e) = read_check(&self.blob, &a.id, &a.bytes) {
                return Some((self.sig_for(i, ctx), format!("artifact #{i} ({:?}) {ctx}: {e}; chunk table {:?}", s(&a.bytes), chunk_table(&self.blob))));
            }
        }
        None
    }
    /// destructive continuation of this execution (the execution is discarded afterwards)
    fn probes(mut self, evals: &mut u64, selftest: &str) -> Option<(String, String)> {
        // 1. integrity: every single-chunk alteration / removal must be reported by verify
        for i in self.live() {
            if let Some(v) = integrity_probe(&self.blob, &self.arts[i].id, &self.arts[i].bytes, i, evals, selftest) {
                return Some(v);
            }
        }
        // 2. collection keeps every live artifact
        nvc::env::clock_advance_ms(AGE_MS);
        let _ = now(self.blob.gc());
        if let Some(v) = self.check_live("after clock+61s;gc", evals) {
            return Some(v);
        }
        let _ = now(self.blob.full_gc());
        if let Some(v) = self.check_live("after full_gc", evals) {
            return Some(v);
        }
        // 3. drain: delete one by one; the rest must survive gc; at the end full_gc leaves nothing
        self.writer = None;
        for i in self.live() {
            // a client retries a delete that reported an error once
            for _attempt in 0..2 {
                match delete_obs(&self.blob, &self.arts[i].id).0 {
                    DelObs::Deleted | DelObs::ErrGone => {
                        self.arts[i].live = false;
                        break;
                    }
                    DelObs::ErrKept => {
                        self.arts[i].taint |= TAINT_DELERR;
                        self.world_taint |= TAINT_DELERR;
                    }
                }
            }
            nvc::env::clock_advance_ms(AGE_MS);
            let _ = now(self.blob.gc());
            if let Some(v) = self.check_live("after delete of another artifact + clock+61s;gc", evals) {
                return Some(v);
            }
        }
        nvc::env::clock_advance_ms(AGE_MS);
        let _ = now(self.blob.full_gc());
        *evals += 1;
        let left = chunk_table(&self.blob);
        // "after all artifacts are deleted": only when every delete went through
        if self.live().is_empty() && !left.is_empty() {
            return Some(("c19:full-gc-leaves-chunks".into(), format!("all artifacts deleted, full_gc left {left:?}")));
        }
        None
    }
}

struct TR {
    path: Vec<Op>,
    key: String,
    shared: bool,
    viol: Option<(String, String)>,
    evals: u64,
    ops: u64,
    probed: bool,
}

fn expand(path: &[Op], seen: &HashSet<String>, selftest: &str) -> Vec<TR> {
    let ops = World::replay(path, selftest).enabled();
    let mut out = vec![];
    for op in ops {
        let mut w = World::replay(path, selftest);
        w.apply(op);
        let mut p = path.to_vec();
        p.push(op);
        let mut evals = 0u64;
        let mut viol = w.step_check(&mut evals);
        let (key, shared) = w.key();
        let mut probed = false;
        if viol.is_none() && !seen.contains(&key) {
            probed = true;
            viol = w.probes(&mut evals, selftest);
        }
        out.push(TR { ops: p.len() as u64, path: p, key, shared, viol, evals, probed });
    }
    out
}

struct PartQ {
    depth: usize,
    states: u64,
    shared_states: u64,
    transitions: u64,
    ops_run: u64,
    evals: u64,
    probed: u64,
    violating: u64,
    by_sig: BTreeMap<String, u64>,
    per_level: Vec<(usize, u64, u64)>,
}

fn part_q(rep: &mut Report, depth: usize, selftest: &str) -> PartQ {
    let mut seen: HashSet<String> = HashSet::new();
    seen.insert(World::new(selftest).key().0);
    let mut frontier: Vec<Vec<Op>> = vec![vec![]];
    let mut q = PartQ { depth, states: 1, shared_states: 0, transitions: 0, ops_run: 0, evals: 0, probed: 0, violating: 0, by_sig: BTreeMap::new(), per_level: vec![] };
    let mut sample_done = false;
    for d in 1..=depth {
        let results: Vec<Vec<TR>> = frontier.par_iter().map(|p| expand(p, &seen, selftest)).collect();
        let mut next = vec![];
        let mut new_states = 0u64;
        for tr in results.into_iter().flatten() {
            q.transitions += 1;
            q.ops_run += tr.ops;
            q.evals += tr.evals;
            q.probed += u64::from(tr.probed);
            if let Some((sig, msg)) = tr.viol {
                q.violating += 1;
                *q.by_sig.entry(sig.clone()).or_default() += 1;
                rep.violation(sig, format!("{:?}: {msg}", show_path(&tr.path)), json!({"part":"Q","ops": tr.path, "ops_readable": show_path(&tr.path)}));
                continue; // a state where the property already failed is not expanded
            }
            if seen.insert(tr.key.clone()) {
                new_states += 1;
                if tr.shared {
                    q.shared_states += 1;
                    if !sample_done && d >= 4 {
                        sample_done = true;
                        rep.sample(json!({"part":"Q","ops": show_path(&tr.path), "state": tr.key}));
                    }
                }
                next.push(tr.path);
            }
        }
        q.states += new_states;
        q.per_level.push((d, frontier.len() as u64, new_states));
        frontier = next;
    }
    q
}

fn replay_q(rep: &mut Report, ops: Vec<Op>, selftest: &str) {
    let mut w = World::new(selftest);
    let mut evals = 0;
    for (i, &op) in ops.iter().enumerate() {
        if !w.enabled().contains(&op) {
            machinery(&format!("replay: op {i} {op:?} not enabled"));
        }
        w.apply(op);
        eprintln!("  {:<28} chunks={:?}", show(op), chunk_table(&w.blob));
        if let Some((sig, msg)) = w.step_check(&mut evals) {
            rep.violation(sig, format!("{:?}: {msg}", show_path(&ops[..=i])), json!({"part":"Q","ops": &ops[..=i]}));
            return;
        }
    }
    if let Some((sig, msg)) = w.probes(&mut evals, selftest) {
        rep.violation(sig, format!("{:?}: {msg}", show_path(&ops)), json!({"part":"Q","ops": ops}));
    }
}

// =================================================================================== Parts P, O, C
// The option space of put / stream-write (PutOptions), of the store (BlobConfig) and the calls that
// rewrite an artifact's metadata record. Same oracle as part Q; what is new is *which* code paths the
// writer's finish() and delete() take (secondary index entries exist or not, fields present or not).
const O_CONTENTS: [&str; 4] = ["aaaabbbba", "aaaabbbb", "aaaa", "a"];

/// PutOptions + filename, one small domain per field; every value selects a different branch in
/// BlobWriter::new / build_metadata_tensor / write_secondary_indexes / delete_artifact (or is the
/// neutral element of its field).
#[derive(Clone, Copy, Debug, Default, PartialEq, Eq, Hash, Serialize, Deserialize)]
struct Opt {
    /// content_type: 0 = not given (config default applies), 1 = Some(""), 2 = Some("application/x-c19")
    ct: u8,
    /// tags: 0 = none, 1 = ["t"], 2 = ["t","u"], 3 = ["t","t"] (duplicate)
    tags: u8,
    /// linked_to: 0 = none, 1 = ["e"], 2 = ["e","e"] (duplicate)
    links: u8,
    /// custom metadata: 0 = none, 1 = {"k":"v", "":"x"}
    meta: u8,
    /// created_by: 0 = not given, 1 = "user:a"
    by: u8,
    /// filename: 0 = "f", 1 = ""
    fname: u8,
    /// embedding: 0 = none, 1 = dense [1,2,3], 2 = sparse [0,0,0,1]
    emb: u8,
}
const OPT_DIMS: [usize; 7] = [3, 4, 3, 2, 2, 2, 3];
impl Opt {
    fn count() -> usize {
        OPT_DIMS.iter().product()
    }
    fn from_index(mut i: usize) -> Opt {
        let mut d = [0u8; 7];
        for k in 0..7 {
            d[k] = (i % OPT_DIMS[k]) as u8;
            i /= OPT_DIMS[k];
        }
        Opt { ct: d[0], tags: d[1], links: d[2], meta: d[3], by: d[4], fname: d[5], emb: d[6] }
    }
    fn filename(self) -> &'static str {
        if self.fname == 0 {
            "f"
        } else {
            ""
        }
    }
    fn build(self) -> PutOptions {
        let mut o = PutOptions::new();
        match self.ct {
            1 => o = o.with_content_type(""),
            2 => o = o.with_content_type("application/x-c19"),
            _ => {}
        }
        match self.tags {
            1 => o = o.with_tag("t"),
            2 => o = o.with_tags(vec!["t".to_string(), "u".to_string()]),
            3 => o = o.with_tag("t").with_tag("t"),
            _ => {}
        }
        match self.links {
            1 => o = o.with_link("e"),
            2 => o = o.with_links(vec!["e".to_string(), "e".to_string()]),
            _ => {}
        }
        if self.meta == 1 {
            o = o.with_meta("k", "v").with_meta("", "x");
        }
        if self.by == 1 {
            o = o.with_created_by("user:a");
        }
        match self.emb {
            1 => o = o.with_embedding(vec![1.0, 2.0, 3.0], "m"),
            2 => o = o.with_embedding(vec![0.0, 0.0, 0.0, 1.0], "m"),
            _ => {}
        }
        o
    }
    fn show(self) -> String {
        let mut v: Vec<String> = vec![];
        match self.ct {
            1 => v.push("content_type(\"\")".into()),
            2 => v.push("content_type(\"application/x-c19\")".into()),
            _ => {}
        }
        match self.tags {
            1 => v.push("tag(t)".into()),
            2 => v.push("tags(t,u)".into()),
            3 => v.push("tags(t,t)".into()),
            _ => {}
        }
        match self.links {
            1 => v.push("link(e)".into()),
            2 => v.push("links(e,e)".into()),
            _ => {}
        }
        if self.meta == 1 {
            v.push("meta(k=v,\"\"=x)".into());
        }
        if self.by == 1 {
            v.push("created_by(user:a)".into());
        }
        if self.fname == 1 {
            v.push("filename(\"\")".into());
        }
        match self.emb {
            1 => v.push("embedding(dense)".into()),
            2 => v.push("embedding(sparse)".into()),
            _ => {}
        }
        if v.is_empty() {
            "default".into()
        } else {
            v.join("+")
        }
    }
}

/// BlobConfig variant (chunk size is always 4 here; part S varies it)
#[derive(Clone, Copy, Debug, Default, PartialEq, Eq, Hash, Serialize, Deserialize)]
struct Cfg {
    /// default_content_type: 0 = "application/octet-stream" (default), 1 = "", 2 = "text/plain"
    dct: u8,
    /// gc_min_age 0 s (and gc_interval 1 s, unused without start()); the gc step then ages by 1 s instead of 61 s
    min_age0: bool,
    /// gc_batch_size (0 = default 100)
    gc_batch: u8,
    /// max_artifact_size (0 = unlimited)
    max_size: u8,
    /// max_artifacts (0 = unlimited)
    max_arts: u8,
}
impl Cfg {
    fn build(self) -> BlobConfig {
        let mut c = BlobConfig::new().with_chunk_size(CHUNK);
        match self.dct {
            1 => c = c.with_default_content_type(""),
            2 => c = c.with_default_content_type("text/plain"),
            _ => {}
        }
        if self.min_age0 {
            c = c.with_gc_min_age(std::time::Duration::ZERO).with_gc_interval(std::time::Duration::from_secs(1));
        }
        if self.gc_batch != 0 {
            c = c.with_gc_batch_size(self.gc_batch as usize);
        }
        if self.max_size != 0 {
            c = c.with_max_artifact_size(self.max_size as usize);
        }
        if self.max_arts != 0 {
            c = c.with_max_artifacts(self.max_arts as usize);
        }
        c
    }
    fn age_ms(self) -> i64 {
        if self.min_age0 {
            1_000
        } else {
            AGE_MS
        }
    }
    fn limited(self) -> bool {
        self.max_size != 0 || self.max_arts != 0
    }
    fn show(self) -> String {
        format!(
            "default_content_type={} gc_min_age={} gc_batch={} max_artifact_size={} max_artifacts={}",
            ["<default>", "\"\"", "text/plain"][self.dct as usize],
            if self.min_age0 { "0s" } else { "60s" },
            if self.gc_batch == 0 { 100 } else { self.gc_batch as usize },
            self.max_size,
            self.max_arts
        )
    }
}

#[derive(Clone, Copy, Debug, PartialEq, Eq, Hash, Serialize, Deserialize)]
enum Kind {
    Put,
    /// writer(); write(first half + 1 byte); write(rest); finish()
    Stream,
}
#[derive(Clone, Copy, Debug, PartialEq, Eq, Hash, Serialize, Deserialize)]
struct Create {
    kind: Kind,
    content: u8,
    opt: Opt,
}
impl Create {
    fn show(self) -> String {
        format!("{}({:?}, {})", if self.kind == Kind::Put { "put" } else { "stream" }, O_CONTENTS[self.content as usize], self.opt.show())
    }
}

const UPD_CT: [&str; 2] = ["", "image/png"];
const TAGS: [&str; 2] = ["t", "n"];
const UNTAGS: [&str; 2] = ["t", "zz"];
const LINKS: [&str; 2] = ["e", "m"];
const UNLINKS: [&str; 2] = ["e", "zz"];

/// operations of parts P / O / C; the first field of the per-artifact ones is the creation index
#[derive(Clone, Copy, Debug, PartialEq, Eq, Hash, Serialize, Deserialize)]
enum OOp {
    /// delete(id); when it returns Ok the call is repeated once (a client whose acknowledgement was lost):
    /// whatever the repetition returns, nothing else may change
    Del(u8),
    Gc,
    FullGc,
    Repair,
    /// update_metadata(with_content_type(UPD_CT[v]))
    UpdCt(u8, u8),
    /// update_metadata(with_filename("g").set_meta("n","1").delete_meta("k"))
    UpdMisc(u8),
    /// set_meta("k","z")
    SetMeta(u8),
    Tag(u8, u8),
    Untag(u8, u8),
    Link(u8, u8),
    Unlink(u8, u8),
    /// set_embedding([0,1,0,0],"m2")
    SetEmb(u8),
}
fn oshow(op: OOp) -> String {
    match op {
        OOp::Del(i) => format!("delete(#{i})"),
        OOp::Gc => "clock+age;gc".into(),
        OOp::FullGc => "full_gc".into(),
        OOp::Repair => "repair".into(),
        OOp::UpdCt(i, v) => format!("update_metadata(#{i}, content_type={:?})", UPD_CT[v as usize]),
        OOp::UpdMisc(i) => format!("update_metadata(#{i}, filename=g, set n=1, delete k)"),
        OOp::SetMeta(i) => format!("set_meta(#{i}, k=z)"),
        OOp::Tag(i, v) => format!("tag(#{i}, {})", TAGS[v as usize]),
        OOp::Untag(i, v) => format!("untag(#{i}, {})", UNTAGS[v as usize]),
        OOp::Link(i, v) => format!("link(#{i}, {})", LINKS[v as usize]),
        OOp::Unlink(i, v) => format!("unlink(#{i}, {})", UNLINKS[v as usize]),
        OOp::SetEmb(i) => format!("set_embedding(#{i})"),
    }
}
fn oshow_path(p: &[OOp]) -> Vec<String> {
    p.iter().map(|o| oshow(*o)).collect()
}

#[derive(Clone, Copy, PartialEq, Eq, Debug, Serialize, Deserialize)]
enum Profile {
    /// delete / gc / full_gc / repair only
    Life,
    /// Life + every metadata-rewriting call on artifact #0
    Mutate,
}

#[derive(Clone, Debug, Serialize, Deserialize)]
struct OCase {
    part: String,
    cfg: Cfg,
    creates: Vec<Create>,
    profile: Profile,
    max_depth: usize,
}
impl OCase {
    fn show(&self) -> String {
        format!("[{}] {}", self.cfg.show(), self.creates.iter().map(|c| c.show()).collect::<Vec<_>>().join("; "))
    }
}

struct OArt {
    id: String,
    bytes: Vec<u8>,
    created: bool,
    live: bool,
    taint: u8,
}
/// what the last applied operation returned (tallied once per transition)
#[derive(Clone, Copy, PartialEq, Eq, Debug)]
enum Obs {
    None,
    /// result of delete; when it went through, whether the immediately repeated delete returned Ok
    Del(DelObs, Option<bool>),
    MutOk,
    MutErr,
    CreateErr,
}
struct OWorld {
    cfg: Cfg,
    blob: Blob,
    arts: Vec<OArt>,
    world_taint: u8,
    /// text of the last delete error (for the message)
    last_del_err: String,
    last_op_full_gc: bool,
    selftest: &'static str,
}

impl OWorld {
    fn build(case: &OCase, selftest: &'static str) -> OWorld {
        let blob = match now(BlobStore::new(take_store(), case.cfg.build())) {
            Ok(b) => Blob { b },
            Err(e) => machinery(&format!("BlobStore::new failed: {e}")),
        };
        let mut w = OWorld { cfg: case.cfg, blob, arts: vec![], world_taint: 0, last_del_err: String::new(), last_op_full_gc: false, selftest };
        for c in &case.creates {
            w.create(*c);
        }
        w
    }
    fn create(&mut self, c: Create) -> Obs {
        let bytes = O_CONTENTS[c.content as usize].as_bytes().to_vec();
        let r: Result<String, String> = match c.kind {
            Kind::Put => now(self.blob.put(c.opt.filename(), &bytes, c.opt.build())).map_err(|e| e.to_string()),
            Kind::Stream => (|| {
                let mut w = now(self.blob.writer(c.opt.filename(), c.opt.build())).map_err(|e| e.to_string())?;
                let cut = bytes.len() / 2 + 1;
                now(w.write(&bytes[..cut.min(bytes.len())])).map_err(|e| e.to_string())?;
                now(w.write(&bytes[cut.min(bytes.len())..])).map_err(|e| e.to_string())?;
                let _ = (w.bytes_written(), w.chunks_written());
                now(w.finish()).map_err(|e| e.to_string())
            })(),
        };
        self.last_op_full_gc = false;
        match r {
            Ok(id) => {
                let mut want = bytes;
                if self.selftest == "opts" && c.opt.ct == 1 {
                    want[0] ^= 1; // deliberately wrong expectation (oracle self-test)
                }
                self.arts.push(OArt { id, bytes: want, created: true, live: true, taint: 0 });
                Obs::None
            }
            Err(e) => {
                // only a store with a size / count limit may refuse non-empty data
                if !self.cfg.limited() {
                    machinery(&format!("{} failed on an unlimited store: {e}", c.show()));
                }
                self.arts.push(OArt { id: String::new(), bytes: vec![], created: false, live: false, taint: 0 });
                Obs::CreateErr
            }
        }
    }
    fn enabled(&self, prof: Profile) -> Vec<OOp> {
        let mut v = vec![];
        for (i, a) in self.arts.iter().enumerate() {
            if a.live {
                v.push(OOp::Del(i as u8));
            }
        }
        v.push(OOp::Gc);
        v.push(OOp::FullGc);
        v.push(OOp::Repair);
        if prof == Profile::Mutate && self.arts.first().is_some_and(|a| a.live) {
            for x in 0..2u8 {
                v.push(OOp::UpdCt(0, x));
            }
            v.push(OOp::UpdMisc(0));
            v.push(OOp::SetMeta(0));
            for x in 0..2u8 {
                v.push(OOp::Tag(0, x));
            }
            for x in 0..2u8 {
                v.push(OOp::Untag(0, x));
            }
            for x in 0..2u8 {
                v.push(OOp::Link(0, x));
            }
            for x in 0..2u8 {
                v.push(OOp::Unlink(0, x));
            }
            v.push(OOp::SetEmb(0));
        }
        v
    }
    /// oracle self-test "delerr": what a delete that fails half-way does (references dropped, error
    /// returned, metadata kept), imitated through the underlying store for artifacts with content type ""
    fn simulated_half_delete(&self, idx: usize) -> bool {
        if self.selftest != "delerr" {
            return false;
        }
        let id = &self.arts[idx].id;
        if !now(self.blob.metadata(id)).is_ok_and(|m| m.content_type.is_empty()) {
            return false;
        }
        for ck in art_chunk_keys(&self.blob, id) {
            if let Ok(mut t) = self.blob.store().get(&ck) {
                let r = t_int(&t, "_refs").unwrap_or(1);
                t.set("_refs", TensorValue::Scalar(ScalarValue::Int((r - 1).max(0))));
                let _ = self.blob.store().put(&ck, t);
            }
        }
        true
    }
    fn del(&mut self, idx: usize) -> Obs {
        if !self.arts[idx].live {
            return Obs::None;
        }
        let (obs, err) = if self.simulated_half_delete(idx) { (DelObs::ErrKept, "simulated (self-test)".to_string()) } else { delete_obs(&self.blob, &self.arts[idx].id) };
        match obs {
            DelObs::Deleted | DelObs::ErrGone => self.arts[idx].live = false,
            DelObs::ErrKept => {
                self.arts[idx].taint |= TAINT_DELERR;
                self.world_taint |= TAINT_DELERR;
                self.last_del_err = err;
            }
        }
        let again = (obs == DelObs::Deleted).then(|| now(self.blob.delete(&self.arts[idx].id)).is_ok());
        Obs::Del(obs, again)
    }
    fn apply(&mut self, op: OOp) -> Obs {
        let full_gc = op == OOp::FullGc;
        let id_of = |w: &OWorld, i: u8| w.arts[i as usize].id.clone();
        let mutres = |r: Result<(), tensor_blob::BlobError>| if r.is_ok() { Obs::MutOk } else { Obs::MutErr };
        let obs = match op {
            OOp::Del(i) => self.del(i as usize),
            OOp::Gc => {
                nvc::env::clock_advance_ms(self.cfg.age_ms());
                if let Err(e) = now(self.blob.gc()) {
                    machinery(&format!("gc failed: {e}"));
                }
                Obs::None
            }
            OOp::FullGc => {
                if let Err(e) = now(self.blob.full_gc()) {
                    machinery(&format!("full_gc failed: {e}"));
                }
                Obs::None
            }
            OOp::Repair => {
                if let Err(e) = self.blob.repair() {
                    machinery(&format!("repair failed: {e}"));
                }
                Obs::None
            }
            OOp::UpdCt(i, v) => mutres(now(self.blob.update_metadata(&id_of(self, i), MetadataUpdates::new().with_content_type(UPD_CT[v as usize])))),
            OOp::UpdMisc(i) => mutres(now(self.blob.update_metadata(&id_of(self, i), MetadataUpdates::new().with_filename("g").set_meta("n", "1").delete_meta("k")))),
            OOp::SetMeta(i) => mutres(now(self.blob.set_meta(&id_of(self, i), "k", "z"))),
            OOp::Tag(i, v) => mutres(now(self.blob.tag(&id_of(self, i), TAGS[v as usize]))),
            OOp::Untag(i, v) => mutres(now(self.blob.untag(&id_of(self, i), UNTAGS[v as usize]))),
            OOp::Link(i, v) => mutres(now(self.blob.link(&id_of(self, i), LINKS[v as usize]))),
            OOp::Unlink(i, v) => mutres(now(self.blob.unlink(&id_of(self, i), UNLINKS[v as usize]))),
            OOp::SetEmb(i) => mutres(now(self.blob.set_embedding(&id_of(self, i), vec![0.0, 1.0, 0.0, 0.0], "m2"))),
        };
        self.last_op_full_gc = full_gc;
        obs
    }
    fn replay(case: &OCase, path: &[OOp], selftest: &'static str) -> OWorld {
        let mut w = OWorld::build(case, selftest);
        for &op in path {
            w.apply(op);
        }
        w
    }
    fn live(&self) -> Vec<usize> {
        (0..self.arts.len()).filter(|&i| self.arts[i].live).collect()
    }
    /// canonical state: every `_blob:` key with its record (artifact ids -> creation index, chunk keys ->
    /// chunk bytes, timestamps / checksum dropped), plus the reference's view and the taints
    fn key(&self) -> (String, bool) {
        let st = self.blob.store();
        let mut chunk_data: BTreeMap<String, String> = BTreeMap::new();
        let mut shared = false;
        let mut lines: Vec<String> = vec![];
        for k in st.scan("_blob:chunk:") {
            if let Ok(t) = st.get(&k) {
                let d = t_bytes(&t, "_data").map_or("?".to_string(), |d| s(&d));
                let r = t_int(&t, "_refs").unwrap_or(-1);
                shared |= r >= 2;
                lines.push(format!("C {d}:{r}"));
                chunk_data.insert(k, d);
            }
        }
        let norm = |x: &str| -> String {
            let mut x = x.to_string();
            for (i, a) in self.arts.iter().enumerate() {
                if a.created {
                    x = x.replace(&a.id, &format!("#{i}"));
                }
            }
            x
        };
        for k in st.scan("_blob:meta:") {
            let Ok(t) = st.get(&k) else { continue };
            let mut fields: Vec<String> = vec![];
            for (f, v) in t.fields_iter() {
                match f.as_str() {
                    "_created" | "_modified" | "_checksum" | "_id" => {}
                    "_chunks" => {
                        if let TensorValue::Pointers(p) = v {
                            let l: Vec<String> = p.iter().map(|ck| chunk_data.get(ck).cloned().unwrap_or_else(|| "<missing>".into())).collect();
                            fields.push(format!("_chunks={l:?}"));
                        }
                    }
                    _ => fields.push(format!("{f}={v:?}")),
                }
            }
            fields.sort();
            lines.push(format!("M {} {}", norm(&k), fields.join(",")));
        }
        for k in st.scan("_blob:idx:") {
            lines.push(format!("I {}", norm(&k)));
        }
        lines.sort();
        let mut k = lines.join("\n");
        k.push_str("\n|");
        for a in &self.arts {
            k.push_str(&format!("{}{}{}t{};", u8::from(a.created), u8::from(a.live), s(&a.bytes), a.taint));
        }
        k.push_str(&format!("|T{}", self.world_taint));
        (k, shared)
    }
    fn sig_for(&self, ctx: &str) -> String {
        if self.world_taint & TAINT_DELERR != 0 {
            SIG_DELERR.into()
        } else {
            format!("c19:opt:{ctx}")
        }
    }
    fn ctx_note(&self) -> String {
        if self.world_taint & TAINT_DELERR != 0 {
            format!(" [an earlier delete returned Err({}) and left the artifact in place]", self.last_del_err)
        } else {
            String::new()
        }
    }
    /// non-destructive check of everything observable after a step
    fn step_check(&self, evals: &mut u64) -> Option<(String, String)> {
        let mut live_ids = BTreeSet::new();
        let mut total = 0usize;
        for (i, a) in self.arts.iter().enumerate() {
            if !a.created {
                continue;
            }
            *evals += 1;
            if a.live {
                live_ids.insert(a.id.clone());
                total += a.bytes.len();
                if let Err(e) = read_check(&self.blob, &a.id, &a.bytes) {
                    return Some((self.sig_for("read-mismatch"), format!("artifact #{i} ({:?}): {e}; chunk table {:?}{}", s(&a.bytes), chunk_table(&self.blob), self.ctx_note())));
                }
                // read-only listings and accessors: run, never judged (not part of the statement)
                let _ = (now(self.blob.links(&a.id)), now(self.blob.get_meta(&a.id, "k")));
            } else {
                let ex = now(self.blob.exists(&a.id));
                let g = now(self.blob.get(&a.id));
                if ex != Ok(false) || g.is_ok() {
                    return Some(("c19:opt:deleted-artifact-readable".into(), format!("deleted artifact #{i}: exists -> {ex:?}, get ok = {}", g.is_ok())));
                }
            }
        }
        let _ = (now(self.blob.by_tag("t")), now(self.blob.by_content_type("")), now(self.blob.by_content_type("application/octet-stream")), now(self.blob.by_creator("user:a")), now(self.blob.artifacts_for("e")));
        *evals += 1;
        match now(self.blob.stats()) {
            Ok(st) => {
                if st.artifact_count != live_ids.len() || st.total_bytes != total {
                    return Some(("c19:opt:stats".into(), format!("stats: {} artifacts / {} bytes, reference {} / {}", st.artifact_count, st.total_bytes, live_ids.len(), total)));
                }
            }
            Err(e) => machinery(&format!("stats failed: {e}")),
        }
        match now(self.blob.list(None)) {
            Ok(l) => {
                let got: BTreeSet<String> = l.into_iter().collect();
                if got != live_ids {
                    return Some(("c19:opt:list".into(), format!("list() = {} ids, reference {}", got.len(), live_ids.len())));
                }
            }
            Err(e) => machinery(&format!("list failed: {e}")),
        }
        let table = chunk_table(&self.blob);
        let distinct: BTreeSet<&String> = table.iter().map(|(d, _)| d).collect();
        if distinct.len() != table.len() {
            return Some(("c19:dedup:identical-content-stored-twice".into(), format!("chunk table {table:?}")));
        }
        // after all artifacts are deleted a full collection leaves no chunks
        if self.last_op_full_gc && live_ids.is_empty() {
            *evals += 1;
            if !table.is_empty() {
                return Some(("c19:full-gc-leaves-chunks".into(), format!("no artifact exists, full_gc left {table:?}")));
            }
        }
        None
    }
    fn check_live(&self, ctx: &str, evals: &mut u64) -> Option<(String, String)> {
        for i in self.live() {
            let a = &self.arts[i];
            *evals += 1;
            if let Err(e) = read_check(&self.blob, &a.id, &a.bytes) {
                return Some((self.sig_for("read-mismatch"), format!("artifact #{i} ({:?}) {ctx}: {e}; chunk table {:?}{}", s(&a.bytes), chunk_table(&self.blob), self.ctx_note())));
            }
        }
        None
    }
    /// integrity clause on every existing artifact (chunks are restored afterwards)
    fn integrity(&self, evals: &mut u64) -> Option<(String, String)> {
        for i in self.live() {
            if let Some(v) = integrity_probe(&self.blob, &self.arts[i].id, &self.arts[i].bytes, i, evals, self.selftest) {
                return Some(v);
            }
        }
        None
    }
    /// destructive continuation (the execution is discarded afterwards): collection keeps every existing
    /// artifact; deleting them one by one (a delete that reports an error is retried once) keeps the rest;
    /// when all are gone full_gc leaves no chunk. Returns the number of artifacts that could not be deleted.
    fn drain(mut self, evals: &mut u64) -> (Option<(String, String)>, u64) {
        let age = self.cfg.age_ms();
        nvc::env::clock_advance_ms(age);
        let _ = now(self.blob.gc());
        if let Some(v) = self.check_live("after clock+age;gc", evals) {
            return (Some(v), 0);
        }
        let _ = now(self.blob.full_gc());
        if let Some(v) = self.check_live("after full_gc", evals) {
            return (Some(v), 0);
        }
        for i in self.live() {
            for _attempt in 0..2 {
                if !matches!(self.del(i), Obs::Del(DelObs::ErrKept, _)) {
                    break;
                }
            }
            nvc::env::clock_advance_ms(age);
            let _ = now(self.blob.gc());
            if let Some(v) = self.check_live(&format!("after delete(#{i}) + clock+age;gc"), evals) {
                return (Some(v), 0);
            }
        }
        nvc::env::clock_advance_ms(age);
        let _ = now(self.blob.full_gc());
        let undeletable = self.live().len() as u64;
        if undeletable == 0 {
            *evals += 1;
            let left = chunk_table(&self.blob);
            if !left.is_empty() {
                return (Some(("c19:full-gc-leaves-chunks".into(), format!("all artifacts deleted, full_gc left {left:?}"))), 0);
            }
        } else if let Some(v) = self.check_live("after the final full_gc (delete kept failing)", evals) {
            return (Some(v), undeletable);
        }
        (None, undeletable)
    }
}

#[derive(Default)]
struct ORes {
    cases: u64,
    states: u64,
    shared_states: u64,
    transitions: u64,
    ops_run: u64,
    evals: u64,
    probed: u64,
    violating: u64,
    by_sig: BTreeMap<String, u64>,
    viols: Vec<(String, String, Value)>,
    not_fixpoint: u64,
    max_level: usize,
    del_ok: u64,
    del_err_kept: u64,
    del_err_gone: u64,
    del_again_ok: u64,
    del_again_err: u64,
    mut_ok: u64,
    mut_err: u64,
    create_err: u64,
    undeletable_in_drain: u64,
    root_keys: BTreeSet<String>,
    sample: Option<Value>,
}
impl ORes {
    fn tally(&mut self, o: Obs) {
        match o {
            Obs::None => {}
            Obs::Del(DelObs::Deleted, again) => {
                self.del_ok += 1;
                match again {
                    Some(true) => self.del_again_ok += 1,
                    _ => self.del_again_err += 1,
                }
            }
            Obs::Del(DelObs::ErrKept, _) => self.del_err_kept += 1,
            Obs::Del(DelObs::ErrGone, _) => self.del_err_gone += 1,
            Obs::MutOk => self.mut_ok += 1,
            Obs::MutErr => self.mut_err += 1,
            Obs::CreateErr => self.create_err += 1,
        }
    }
    fn viol(&mut self, case: &OCase, path: &[OOp], sig: String, msg: String) {
        self.violating += 1;
        *self.by_sig.entry(sig.clone()).or_default() += 1;
        if self.viols.iter().filter(|v| v.0 == sig).count() < 3 {
            let rj = json!({"part": case.part, "case": case, "ops": path, "setup_readable": case.show(), "ops_readable": oshow_path(path)});
            self.viols.push((sig, format!("{} then {:?}: {msg}", case.show(), oshow_path(path)), rj));
        }
    }
    fn merge(&mut self, o: ORes) {
        self.cases += o.cases;
        self.states += o.states;
        self.shared_states += o.shared_states;
        self.transitions += o.transitions;
        self.ops_run += o.ops_run;
        self.evals += o.evals;
        self.probed += o.probed;
        self.violating += o.violating;
        for (k, v) in o.by_sig {
            *self.by_sig.entry(k).or_default() += v;
        }
        for v in o.viols {
            if self.viols.iter().filter(|x| x.0 == v.0).count() < 3 {
                self.viols.push(v);
            }
        }
        self.not_fixpoint += o.not_fixpoint;
        self.max_level = self.max_level.max(o.max_level);
        self.del_ok += o.del_ok;
        self.del_err_kept += o.del_err_kept;
        self.del_err_gone += o.del_err_gone;
        self.del_again_ok += o.del_again_ok;
        self.del_again_err += o.del_again_err;
        self.mut_ok += o.mut_ok;
        self.mut_err += o.mut_err;
        self.create_err += o.create_err;
        self.undeletable_in_drain += o.undeletable_in_drain;
        self.root_keys.extend(o.root_keys);
        if self.sample.is_none() {
            self.sample = o.sample;
        }
    }
    fn to_json(&self) -> Value {
        json!({"cases": self.cases, "states": self.states, "states_with_shared_chunk": self.shared_states, "transitions": self.transitions, "ops_executed_incl_replay": self.ops_run,
               "oracle_comparisons": self.evals, "states_probed": self.probed, "violating_transitions": self.violating, "violations_by_signature": self.by_sig,
               "cases_cut_at_depth_bound": self.not_fixpoint, "deepest_level_with_new_states": self.max_level, "distinct_initial_states": self.root_keys.len(),
               "delete_results": {"ok": self.del_ok, "err_artifact_kept": self.del_err_kept, "err_artifact_gone": self.del_err_gone, "repeat_after_success_ok": self.del_again_ok, "repeat_after_success_err": self.del_again_err},
               "metadata_calls": {"ok": self.mut_ok, "err": self.mut_err}, "creates_refused_by_limit": self.create_err, "artifacts_undeletable_in_drain": self.undeletable_in_drain})
    }
}

struct OTr {
    path: Vec<OOp>,
    key: String,
    shared: bool,
    viol: Option<(String, String)>,
    evals: u64,
    probed: bool,
    obs: Obs,
    undeletable: u64,
}

fn o_expand(case: &OCase, path: &[OOp], seen: &HashSet<String>, selftest: &'static str) -> Vec<OTr> {
    let ops = OWorld::replay(case, path, selftest).enabled(case.profile);
    let mut out = vec![];
    for op in ops {
        let mut w = OWorld::replay(case, path, selftest);
        let obs = w.apply(op);
        let mut p = path.to_vec();
        p.push(op);
        let mut evals = 0u64;
        let mut viol = w.step_check(&mut evals);
        let (key, shared) = w.key();
        let mut probed = false;
        let mut undeletable = 0;
        // the Life profile runs to its fixpoint, which contains every continuation the drain would try
        if viol.is_none() && case.profile == Profile::Mutate && !seen.contains(&key) {
            probed = true;
            (viol, undeletable) = w.drain(&mut evals);
        }
        out.push(OTr { path: p, key, shared, viol, evals, probed, obs, undeletable });
    }
    out
}

/// BFS over one case up to its depth bound (or until no new state appears: fixpoint)
fn run_case(case: &OCase, inner_par: bool, selftest: &'static str) -> ORes {
    let mut r = ORes { cases: 1, ..Default::default() };
    let root = OWorld::build(case, selftest);
    for a in &root.arts {
        if !a.created {
            r.tally(Obs::CreateErr);
        }
    }
    let mut evals = 0u64;
    let (rk, rshared) = root.key();
    r.states = 1;
    r.shared_states += u64::from(rshared);
    r.root_keys.insert(rk.clone());
    let mut viol = root.step_check(&mut evals);
    if viol.is_none() {
        viol = root.integrity(&mut evals);
    }
    // (the Life profile runs to its fixpoint: the shortest failing operation sequence is found by the search)
    if viol.is_none() && case.profile == Profile::Mutate {
        let (v, u) = root.drain(&mut evals);
        viol = v;
        r.undeletable_in_drain += u;
        r.probed += 1;
    }
    r.evals += evals;
    r.ops_run += case.creates.len() as u64;
    if let Some((sig, msg)) = viol {
        r.viol(case, &[], sig, msg);
        return r;
    }
    let mut seen: HashSet<String> = HashSet::new();
    seen.insert(rk);
    let mut frontier: Vec<Vec<OOp>> = vec![vec![]];
    for d in 1..=case.max_depth {
        let results: Vec<Vec<OTr>> = if inner_par { frontier.par_iter().map(|p| o_expand(case, p, &seen, selftest)).collect() } else { frontier.iter().map(|p| o_expand(case, p, &seen, selftest)).collect() };
        let mut next = vec![];
        for tr in results.into_iter().flatten() {
            r.transitions += 1;
            r.ops_run += (case.creates.len() + tr.path.len()) as u64;
            r.evals += tr.evals;
            r.probed += u64::from(tr.probed);
            r.undeletable_in_drain += tr.undeletable;
            r.tally(tr.obs);
            if let Some((sig, msg)) = tr.viol {
                r.viol(case, &tr.path, sig, msg);
                continue; // a state where the property already failed is not expanded
            }
            if seen.insert(tr.key.clone()) {
                r.states += 1;
                r.max_level = r.max_level.max(d);
                if tr.shared {
                    r.shared_states += 1;
                }
                if r.sample.is_none() && tr.path.len() >= 3 {
                    r.sample = Some(json!({"part": case.part, "setup": case.show(), "ops": oshow_path(&tr.path), "state": tr.key}));
                }
                next.push(tr.path);
            }
        }
        frontier = next;
        if frontier.is_empty() {
            break;
        }
    }
    if !frontier.is_empty() {
        r.not_fixpoint = 1;
    }
    r
}

fn run_cases(cases: &[OCase], inner_par: bool, selftest: &'static str) -> ORes {
    let parts: Vec<ORes> = if inner_par { cases.iter().map(|c| run_case(c, true, selftest)).collect() } else { cases.par_iter().map(|c| run_case(c, false, selftest)).collect() };
    let mut t = ORes::default();
    for p in parts {
        t.merge(p);
    }
    t
}

fn replay_o(rep: &mut Report, case: OCase, ops: Vec<OOp>, selftest: &'static str) {
    eprintln!("  setup: {}", case.show());
    let mut w = OWorld::build(&case, selftest);
    let mut evals = 0;
    eprintln!("  {:<56} chunks={:?}", "(after setup)", chunk_table(&w.blob));
    if let Some((sig, msg)) = w.step_check(&mut evals) {
        rep.violation(sig, format!("{}: {msg}", case.show()), json!({"part": case.part, "case": case, "ops": []}));
        return;
    }
    for (i, &op) in ops.iter().enumerate() {
        if !w.enabled(case.profile).contains(&op) && !w.enabled(Profile::Mutate).contains(&op) {
            machinery(&format!("replay: op {i} {op:?} not enabled"));
        }
        let obs = w.apply(op);
        eprintln!("  {:<56} -> {obs:?} chunks={:?}", oshow(op), chunk_table(&w.blob));
        if let Some((sig, msg)) = w.step_check(&mut evals) {
            rep.violation(sig, format!("{} then {:?}: {msg}", case.show(), oshow_path(&ops[..=i])), json!({"part": case.part, "case": case, "ops": &ops[..=i]}));
            return;
        }
    }
    if ops.is_empty() {
        if let Some((sig, msg)) = w.integrity(&mut evals) {
            rep.violation(sig, format!("{}: {msg}", case.show()), json!({"part": case.part, "case": case, "ops": ops}));
            return;
        }
    }
    if let (Some((sig, msg)), _) = w.drain(&mut evals) {
        rep.violation(sig, format!("{} then {:?}: {msg}", case.show(), oshow_path(&ops)), json!({"part": case.part, "case": case, "ops": ops}));
    }
}

/// Part P: the full PutOptions product on artifact #0 (9 bytes = chunks aaaa, bbbb, a), a plain `put` of
/// "aaaabbbb" as #1 sharing two chunks (or created first), for each store configuration and both ways of
/// writing; then every sequence of delete(#0) / delete(#1) / gc / full_gc / repair up to the fixpoint.
fn cases_p(thorough: bool) -> Vec<OCase> {
    let mut v = vec![];
    let sharer = Create { kind: Kind::Put, content: 1, opt: Opt::default() };
    let mut cfgs: Vec<(Cfg, bool)> = vec![]; // (config, primary?)
    for dct in 0..3u8 {
        cfgs.push((Cfg { dct, ..Default::default() }, true));
    }
    for dct in 0..3u8 {
        // (no gc_batch_size variant here: with a batch smaller than the number of chunks gc_cycle looks at the
        // first keys of a HashSet-ordered scan, so which orphan goes first is not reproducible; part Q has it)
        cfgs.push((Cfg { dct, min_age0: true, ..Default::default() }, false));
    }
    for (cfg, primary) in cfgs {
        // 2 = every combination; 1 = content type x tags x links in full, of the four fields that are only
        // copied into the record (metadata, created_by, filename, embedding) none, each one alone, or all
        // together; 0 = content type x tags x links only (the fields that decide which index entries exist)
        let level = match (thorough, primary) {
            (true, true) => 2,
            (true, false) | (false, true) => 1,
            (false, false) => 0,
        };
        for i in 0..Opt::count() {
            let opt = Opt::from_index(i);
            let copied = [opt.meta != 0, opt.by != 0, opt.fname != 0, opt.emb != 0].iter().filter(|x| **x).count();
            let keep = match level {
                2 => true,
                1 => copied <= 1 || (opt.meta, opt.by, opt.fname, opt.emb) == (1, 1, 1, 2),
                _ => copied == 0,
            };
            if !keep {
                continue;
            }
            for kind in [Kind::Put, Kind::Stream] {
                let x = Create { kind, content: 0, opt };
                v.push(OCase { part: "P".into(), cfg, creates: vec![x, sharer], profile: Profile::Life, max_depth: 12 });
                if thorough && primary {
                    v.push(OCase { part: "P".into(), cfg, creates: vec![sharer, x], profile: Profile::Life, max_depth: 12 });
                }
            }
        }
    }
    v
}

/// Part O: calls that rewrite the metadata record of artifact #0 (update_metadata, set_meta, tag, untag,
/// link, unlink, set_embedding) interleaved with delete / gc / full_gc / repair, depth-bounded.
fn cases_o(thorough: bool, depth: usize) -> Vec<OCase> {
    let inits: Vec<Opt> = if thorough {
        vec![
            Opt::default(),
            Opt { ct: 1, ..Default::default() },
            Opt { ct: 2, tags: 1, links: 1, meta: 1, by: 1, ..Default::default() },
            Opt { tags: 3, links: 2, ..Default::default() },
            Opt { ct: 1, tags: 2, links: 1, meta: 1, fname: 1, emb: 2, ..Default::default() },
        ]
    } else {
        vec![Opt::default(), Opt { ct: 2, tags: 1, links: 1, meta: 1, by: 1, ..Default::default() }, Opt { tags: 3, links: 2, ..Default::default() }]
    };
    let dcts: Vec<u8> = if thorough { vec![0, 1, 2] } else { vec![0, 1] };
    let sharer = Create { kind: Kind::Put, content: 1, opt: Opt::default() };
    let mut v = vec![];
    for &dct in &dcts {
        for &opt in &inits {
            v.push(OCase { part: "O".into(), cfg: Cfg { dct, ..Default::default() }, creates: vec![Create { kind: Kind::Put, content: 0, opt }, sharer], profile: Profile::Mutate, max_depth: depth });
        }
    }
    v
}

/// Part C: max_artifact_size / max_artifacts: a refused write must leave everything else intact.
fn cases_c() -> Vec<OCase> {
    let mut v = vec![];
    for max_size in [0u8, 1, 4, 5, 8] {
        for max_arts in [0u8, 1] {
            if max_size == 0 && max_arts == 0 {
                continue;
            }
            for kind in [Kind::Put, Kind::Stream] {
                for content in 0..O_CONTENTS.len() as u8 {
                    for ct in [0u8, 1] {
                        let first = Create { kind: Kind::Put, content: 2, opt: Opt::default() };
                        let x = Create { kind, content, opt: Opt { ct, ..Default::default() } };
                        v.push(OCase { part: "C".into(), cfg: Cfg { max_size, max_arts, ..Default::default() }, creates: vec![first, x], profile: Profile::Life, max_depth: 12 });
                    }
                }
            }
        }
    }
    v
}

// =================================================================================== Part E1
#[derive(Clone, Debug)]
enum SOp {
    Put(&'static str),
    /// put then delete: leaves chunks with zero references behind
    PutDel(&'static str),
}
#[derive(Clone, Debug)]
enum TOp {
    Put(&'static str),
    Stream(&'static [&'static str]),
    /// delete the artifact created by setup op #i
    Delete(usize),
    /// tag("t") on the artifact created by setup op #i (rewrites its metadata record)
    Tag(usize),
    Gc,
    FullGc,
}
#[derive(Clone, Copy, PartialEq, Eq, Debug)]
enum Collector {
    None,
    Gc,
    FullGc,
}
#[derive(Clone)]
struct Scn {
    name: &'static str,
    setup: Vec<SOp>,
    /// advance the clock beyond gc_min_age after the setup (so that setup chunks are collectable)
    pre_age: bool,
    threads: Vec<Vec<TOp>>,
    bound_quick: usize,
    bound_thorough: usize,
    thorough_only: bool,
}
impl Scn {
    fn collector(&self) -> Collector {
        let mut c = Collector::None;
        for t in &self.threads {
            for op in t {
                match op {
                    TOp::Gc => c = Collector::Gc,
                    TOp::FullGc => c = Collector::FullGc,
                    _ => {}
                }
            }
        }
        c
    }
}

fn scenarios() -> Vec<Scn> {
    use SOp::{Put as SP, PutDel as SPD};
    use TOp::*;
    vec![
        Scn { name: "put(A)|delete(A)", setup: vec![SP("aaaa")], pre_age: false, threads: vec![vec![Put("aaaa")], vec![Delete(0)]], bound_quick: 3, bound_thorough: 4, thorough_only: false },
        Scn { name: "put(AB)|delete(A)", setup: vec![SP("aaaa")], pre_age: false, threads: vec![vec![Put("aaaabbbb")], vec![Delete(0)]], bound_quick: 3, bound_thorough: 4, thorough_only: false },
        Scn { name: "put(A)|put(A)", setup: vec![], pre_age: false, threads: vec![vec![Put("aaaa")], vec![Put("aaaa")]], bound_quick: 3, bound_thorough: 4, thorough_only: false },
        Scn { name: "put(AB)|delete(AB)", setup: vec![SP("aaaabbbb")], pre_age: false, threads: vec![vec![Put("aaaabbbb")], vec![Delete(0)]], bound_quick: 3, bound_thorough: 4, thorough_only: false },
        Scn { name: "delete(A#0)|delete(A#1);A#2 stays", setup: vec![SP("aaaa"), SP("aaaa"), SP("aaaa")], pre_age: false, threads: vec![vec![Delete(0)], vec![Delete(1)]], bound_quick: 3, bound_thorough: 4, thorough_only: false },
        Scn { name: "put(A)|gc;orphan A old", setup: vec![SPD("aaaa")], pre_age: true, threads: vec![vec![Put("aaaa")], vec![Gc]], bound_quick: 3, bound_thorough: 4, thorough_only: false },
        Scn { name: "delete(A)|gc;orphan B old", setup: vec![SP("aaaa"), SPD("bbbb")], pre_age: true, threads: vec![vec![Delete(0)], vec![Gc]], bound_quick: 3, bound_thorough: 4, thorough_only: false },
        Scn { name: "put(AB)|full_gc", setup: vec![], pre_age: false, threads: vec![vec![Put("aaaabbbb")], vec![FullGc]], bound_quick: 3, bound_thorough: 4, thorough_only: false },
        Scn { name: "stream(aa,aabb,bb)|full_gc;A live", setup: vec![SP("aaaa")], pre_age: false, threads: vec![vec![Stream(&["aa", "aabb", "bb"])], vec![FullGc]], bound_quick: 3, bound_thorough: 4, thorough_only: false },
        Scn { name: "put(AB)|delete(A)|gc", setup: vec![SP("aaaa")], pre_age: true, threads: vec![vec![Put("aaaabbbb")], vec![Delete(0)], vec![Gc]], bound_quick: 2, bound_thorough: 3, thorough_only: false },
        Scn { name: "put(AB)|delete(A)|full_gc", setup: vec![SP("aaaa")], pre_age: false, threads: vec![vec![Put("aaaabbbb")], vec![Delete(0)], vec![FullGc]], bound_quick: 2, bound_thorough: 3, thorough_only: false },
        Scn { name: "stream(a,aaa,bbbb)|delete(A)|gc", setup: vec![SP("aaaa")], pre_age: true, threads: vec![vec![Stream(&["a", "aaa", "bbbb"])], vec![Delete(0)], vec![Gc]], bound_quick: 2, bound_thorough: 3, thorough_only: false },
        Scn { name: "put(A)|put(AB)|delete(A)", setup: vec![SP("aaaa")], pre_age: false, threads: vec![vec![Put("aaaa")], vec![Put("aaaabbbb")], vec![Delete(0)]], bound_quick: 2, bound_thorough: 3, thorough_only: true },
        Scn { name: "put(AB)|put(A)|delete(A)|gc", setup: vec![SP("aaaa")], pre_age: true, threads: vec![vec![Put("aaaabbbb")], vec![Put("aaaa")], vec![Delete(0)], vec![Gc]], bound_quick: 1, bound_thorough: 2, thorough_only: true },
        // not part of any tier (the quantifier of C19 has concurrent writers and deleters of content only): run with
        // --scenario="optin:tag(A#0)|delete(A#0)" --parts=E1
        Scn { name: "optin:tag(A#0)|delete(A#0)", setup: vec![SP("aaaa")], pre_age: true, threads: vec![vec![Tag(0)], vec![Delete(0)]], bound_quick: 3, bound_thorough: 4, thorough_only: true },
        Scn { name: "put(A)|delete(A);gc", setup: vec![SP("aaaa")], pre_age: true, threads: vec![vec![Put("aaaa")], vec![Delete(0), Gc]], bound_quick: 3, bound_thorough: 4, thorough_only: true },
    ]
}

#[derive(Clone, Debug)]
enum TRes {
    Created(String, Vec<u8>),
    CreateErr(String),
    Deleted(usize, Result<(), String>),
    Tagged(usize, Result<(), String>),
    Collected(&'static str, usize),
}

fn run_top(blob: &BlobStore, op: &TOp, setup_ids: &[String]) -> TRes {
    match op {
        TOp::Put(c) => match now(blob.put("f", c.as_bytes(), PutOptions::new())) {
            Ok(id) => TRes::Created(id, c.as_bytes().to_vec()),
            Err(e) => TRes::CreateErr(e.to_string()),
        },
        TOp::Stream(pieces) => {
            let r = (|| -> Result<String, String> {
                let mut w = now(blob.writer("f", PutOptions::new())).map_err(|e| e.to_string())?;
                for p in pieces.iter() {
                    now(w.write(p.as_bytes())).map_err(|e| e.to_string())?;
                }
                now(w.finish()).map_err(|e| e.to_string())
            })();
            match r {
                Ok(id) => TRes::Created(id, pieces.concat().into_bytes()),
                Err(e) => TRes::CreateErr(e),
            }
        }
        TOp::Delete(i) => TRes::Deleted(*i, now(blob.delete(&setup_ids[*i])).map_err(|e| e.to_string())),
        TOp::Tag(i) => TRes::Tagged(*i, now(blob.tag(&setup_ids[*i], "t")).map_err(|e| e.to_string())),
        TOp::Gc => TRes::Collected("gc", now(blob.gc()).map(|g| g.deleted).unwrap_or(usize::MAX)),
        TOp::FullGc => TRes::Collected("full_gc", now(blob.full_gc()).map(|g| g.deleted).unwrap_or(usize::MAX)),
    }
}

#[derive(Clone, Debug, Default, Serialize, Deserialize)]
struct VSample {
    sig: String,
    message: String,
    choices: Vec<usize>,
    threads: Vec<usize>,
    preemptions: usize,
}
#[derive(Default)]
struct Acc {
    by_sig: BTreeMap<String, u64>,
    best: BTreeMap<String, VSample>,
    ok_sample: Option<(String, Vec<usize>)>,
}

struct Judged {
    outcome: String,
    viol: Option<(String, String)>,
}

/// Sequential continuation after quiescence (main thread, not scheduled).
fn judge(scn: &Scn, blob: &BlobStore, setup: &[(String, Vec<u8>, bool)], stamped: &[Vec<(TRes, u64)>], selftest: &str) -> Judged {
    // completion order of the operations (logical stamps) is part of the observable outcome
    let mut order: Vec<(u64, String)> = vec![];
    for (t, rs) in stamped.iter().enumerate() {
        for (k, (_, st)) in rs.iter().enumerate() {
            order.push((*st, format!("t{t}.{k}")));
        }
    }
    order.sort();
    let order: Vec<String> = order.into_iter().map(|x| x.1).collect();
    let results: Vec<Vec<TRes>> = stamped.iter().map(|rs| rs.iter().map(|x| x.0.clone()).collect()).collect();
    let results = &results[..];
    // reference: which artifacts exist and with which bytes
    let mut arts: Vec<(String, Vec<u8>)> = vec![];
    let mut deleted: BTreeSet<usize> = BTreeSet::new();
    let mut tres = String::new();
    for (t, rs) in results.iter().enumerate() {
        for r in rs {
            match r {
                TRes::Created(_, b) => tres.push_str(&format!("t{t}:created({});", s(b))),
                TRes::CreateErr(e) => tres.push_str(&format!("t{t}:create-err({e});")),
                TRes::Deleted(i, Ok(())) => {
                    deleted.insert(*i);
                    tres.push_str(&format!("t{t}:deleted#{i};"));
                }
                TRes::Deleted(i, Err(e)) => tres.push_str(&format!("t{t}:delete#{i}-err({e});")),
                TRes::Tagged(i, r) => tres.push_str(&format!("t{t}:tag#{i}->{};", if r.is_ok() { "ok" } else { "err" })),
                TRes::Collected(w, n) => tres.push_str(&format!("t{t}:{w}->{n};")),
            }
        }
    }
    // an artifact whose delete went through but which exists at quiescence (its record was written again by
    // a concurrent metadata update): it exists, so it must read back like any other
    let mut recreated: Vec<(String, Vec<u8>)> = vec![];
    for (i, (id, bytes, live)) in setup.iter().enumerate() {
        if *live && !deleted.contains(&i) {
            arts.push((id.clone(), bytes.clone()));
        } else if *live && now(blob.exists(id)) == Ok(true) {
            recreated.push((id.clone(), bytes.clone()));
        }
    }
    for rs in results {
        for r in rs {
            if let TRes::Created(id, b) = r {
                let mut want = b.clone();
                if selftest == "e1" {
                    want[0] ^= 1;
                }
                arts.push((id.clone(), want));
            }
        }
    }
    let table0 = chunk_table(blob);
    let mut outcome = format!("{tres} completed={order:?} chunks@quiescence={table0:?}");
    let coll = scn.collector();
    let check_all = |arts: &[(String, Vec<u8>)]| -> Option<String> {
        for (id, bytes) in arts {
            if let Err(e) = read_check(blob, id, bytes) {
                return Some(format!("artifact {:?}: {e}", s(bytes)));
            }
        }
        None
    };
    // phase 1: at quiescence
    if let Some(e) = check_all(&arts) {
        let sig = match coll {
            Collector::FullGc => SIG_FULLGC.to_string(),
            Collector::Gc => SIG_REFRACE.to_string(),
            Collector::None => "c19:conc:read-mismatch-at-quiescence".to_string(),
        };
        outcome.push_str(" FAIL@quiescence");
        return Judged { outcome, viol: Some((sig, format!("at quiescence {e}; threads: {tres} chunk table {table0:?}"))) };
    }
    // phase 2: a collection must keep every existing artifact
    nvc::env::clock_advance_ms(AGE_MS);
    let _ = now(blob.gc());
    if let Some(e) = check_all(&recreated) {
        outcome.push_str(" FAIL@recreated");
        return Judged { outcome, viol: Some(("c19:conc:metadata-update-recreates-deleted-artifact".into(), format!("delete returned Ok, a concurrent tag() wrote the metadata record back: the artifact exists but its chunk references are gone; after clock+61s;gc: {e}; threads: {tres} chunk table at quiescence {table0:?}"))) };
    }
    arts.extend(recreated);
    if let Some(e) = check_all(&arts) {
        outcome.push_str(" FAIL@gc");
        return Judged { outcome, viol: Some((SIG_REFRACE.into(), format!("after quiescence, clock+61s;gc: {e}; threads: {tres} chunk table at quiescence {table0:?}"))) };
    }
    // phase 3: drain
    let mut undeletable: Vec<(String, Vec<u8>)> = vec![];
    while !arts.is_empty() {
        let (id, bytes) = arts.remove(0);
        if delete_obs(blob, &id).0 == DelObs::ErrKept && delete_obs(blob, &id).0 == DelObs::ErrKept {
            // cannot be deleted (error twice, still exists): it stays in the reference and is checked below
            undeletable.push((id, bytes.clone()));
        }
        nvc::env::clock_advance_ms(AGE_MS);
        let _ = now(blob.gc());
        if let Some(e) = check_all(&undeletable) {
            outcome.push_str(" FAIL@drain-delerr");
            return Judged { outcome, viol: Some((SIG_DELERR.into(), format!("after quiescence, delete returned an error twice and the artifact still exists; after clock+61s;gc: {e}; threads: {tres}"))) };
        }
        if let Some(e) = check_all(&arts) {
            outcome.push_str(" FAIL@drain");
            let sig = if undeletable.is_empty() { SIG_REFRACE } else { SIG_DELERR };
            return Judged { outcome, viol: Some((sig.into(), format!("after quiescence, delete({:?}), clock+61s;gc: {e}; threads: {tres} chunk table at quiescence {table0:?}", s(&bytes)))) };
        }
    }
    nvc::env::clock_advance_ms(AGE_MS);
    let _ = now(blob.full_gc());
    let left = chunk_table(blob);
    if undeletable.is_empty() && !left.is_empty() {
        outcome.push_str(" FAIL@final");
        return Judged { outcome, viol: Some(("c19:full-gc-leaves-chunks".into(), format!("all artifacts deleted, full_gc left {left:?}"))) };
    }
    Judged { outcome, viol: None }
}

type Built = (Vec<vsched::Body>, Box<dyn FnOnce(&vsched::RunResult) -> Judged>);

fn build(scn: &Scn, selftest: &'static str) -> Built {
    nvc::env::set_thread_seed(0);
    nvc::env::clock_reset();
    nvc::env::clock_freeze(T0);
    let blob = Arc::new(new_blob(CHUNK));
    let mut setup: Vec<(String, Vec<u8>, bool)> = vec![];
    for op in &scn.setup {
        let (c, live) = match op {
            SOp::Put(c) => (*c, true),
            SOp::PutDel(c) => (*c, false),
        };
        let id = match now(blob.put("s", c.as_bytes(), PutOptions::new())) {
            Ok(id) => id,
            Err(e) => machinery(&format!("setup put failed: {e}")),
        };
        if !live {
            if let Err(e) = now(blob.delete(&id)) {
                machinery(&format!("setup delete failed: {e}"));
            }
        }
        setup.push((id, c.as_bytes().to_vec(), live));
    }
    if scn.pre_age {
        nvc::env::clock_advance_ms(AGE_MS);
    }
    let setup_ids: Arc<Vec<String>> = Arc::new(setup.iter().map(|x| x.0.clone()).collect());
    let results: Arc<Vec<Mutex<Vec<(TRes, u64)>>>> = Arc::new((0..scn.threads.len()).map(|_| Mutex::new(vec![])).collect());
    let mut bodies: Vec<vsched::Body> = vec![];
    for (i, ops) in scn.threads.iter().enumerate() {
        let (blob, ids, results, ops) = (blob.clone(), setup_ids.clone(), results.clone(), ops.clone());
        bodies.push(Box::new(move || {
            for op in &ops {
                let r = run_top(&blob, op, &ids);
                results[i].lock().unwrap().push((r, vsched::stamp()));
            }
        }));
    }
    let scn2 = scn.clone();
    let check = Box::new(move |_r: &vsched::RunResult| {
        let res: Vec<Vec<(TRes, u64)>> = results.iter().map(|m| m.lock().unwrap().clone()).collect();
        judge(&scn2, &blob, &setup, &res, selftest)
    });
    (bodies, check)
}

#[derive(Clone, Debug, Default, Serialize, Deserialize)]
struct ScnOut {
    name: String,
    bound: usize,
    threads: usize,
    executions: u64,
    sched_points: u64,
    max_points: usize,
    by_preemptions: BTreeMap<usize, u64>,
    outcomes: BTreeMap<String, u64>,
    violation_count: u64,
    by_sig: BTreeMap<String, u64>,
    samples: Vec<VSample>,
    ok_sample: Option<(String, Vec<usize>)>,
    deadlocks: u64,
    capped: bool,
    machinery: Option<String>,
}

fn run_scn(scn: &Scn, bound: usize, part: (usize, usize), selftest: &'static str) -> ScnOut {
    let acc: Rc<RefCell<Acc>> = Rc::new(RefCell::new(Acc::default()));
    let cfg = vsched::ExploreCfg { bound, part, max_execs: 3_000_000 };
    let stats = vsched::explore(&cfg, || {
        let (bodies, check) = build(scn, selftest);
        let acc = acc.clone();
        (
            bodies,
            Box::new(move |r: &vsched::RunResult| {
                let j = check(r);
                let mut a = acc.borrow_mut();
                match &j.viol {
                    Some((sig, msg)) => {
                        *a.by_sig.entry(sig.clone()).or_default() += 1;
                        let cand = VSample { sig: sig.clone(), message: msg.clone(), choices: r.choices(), threads: r.thread_schedule(), preemptions: r.preemptions() };
                        let better = a.best.get(sig).is_none_or(|b| (cand.preemptions, cand.choices.len()) < (b.preemptions, b.choices.len()));
                        if better {
                            a.best.insert(sig.clone(), cand);
                        }
                    }
                    None => {
                        if a.ok_sample.is_none() && r.preemptions() > 0 {
                            a.ok_sample = Some((j.outcome.clone(), r.thread_schedule()));
                        }
                    }
                }
                vsched::Verdict { outcome: j.outcome, violation: j.viol.map(|(sig, msg)| format!("{sig}|{msg}")) }
            }) as Box<dyn FnOnce(&vsched::RunResult) -> vsched::Verdict>,
        )
    });
    let mut a = std::mem::take(&mut *acc.borrow_mut());
    // deadlocks and panics are judged by vsched itself
    for v in &stats.violations {
        let sig = if v.message.starts_with("deadlock") {
            "c19:conc:deadlock"
        } else if v.message.starts_with("panic") {
            "c19:conc:panic"
        } else {
            continue;
        };
        a.best.entry(sig.to_string()).or_insert(VSample { sig: sig.into(), message: v.message.clone(), choices: v.choices.clone(), threads: v.threads.clone(), preemptions: v.preemptions });
    }
    let judged: u64 = a.by_sig.values().sum();
    if stats.violation_count > judged {
        *a.by_sig.entry("c19:conc:deadlock-or-panic".into()).or_default() += stats.violation_count - judged;
    }
    ScnOut {
        name: scn.name.into(),
        bound,
        threads: scn.threads.len(),
        executions: stats.executions,
        sched_points: stats.sched_points,
        max_points: stats.max_points,
        by_preemptions: stats.by_preemptions,
        outcomes: stats.outcomes,
        violation_count: stats.violation_count,
        by_sig: a.by_sig,
        samples: a.best.into_values().collect(),
        ok_sample: a.ok_sample,
        deadlocks: stats.deadlocks,
        capped: stats.capped,
        machinery: stats.machinery,
    }
}

fn e1_init() {
    vsched::quiet_panics();
    vsched::set_thread_init(|i| nvc::env::set_thread_seed(i as u64 + 1));
}

fn selected(scn: &Scn, thorough: bool, only: &Option<String>) -> bool {
    if let Some(o) = only {
        return scn.name == o;
    }
    !scn.name.starts_with("optin:") && (thorough || !scn.thorough_only)
}

fn e1_worker(part: (usize, usize), thorough: bool, only: Option<String>, selftest: &'static str) -> ! {
    e1_init();
    let mut out = vec![];
    for scn in scenarios() {
        if !selected(&scn, thorough, &only) {
            continue;
        }
        let bound = if thorough { scn.bound_thorough } else { scn.bound_quick };
        out.push(run_scn(&scn, bound, part, selftest));
    }
    nvc::par::emit_result(&out);
    std::process::exit(0);
}

fn merge_e1(all: Vec<Vec<ScnOut>>) -> Vec<ScnOut> {
    let mut merged: Vec<ScnOut> = vec![];
    for w in all {
        for (i, o) in w.into_iter().enumerate() {
            if merged.len() <= i {
                merged.push(ScnOut { name: o.name.clone(), bound: o.bound, threads: o.threads, ..Default::default() });
            }
            let m = &mut merged[i];
            assert_eq!(m.name, o.name);
            m.executions += o.executions;
            m.sched_points += o.sched_points;
            m.max_points = m.max_points.max(o.max_points);
            for (k, v) in o.by_preemptions {
                *m.by_preemptions.entry(k).or_default() += v;
            }
            for (k, v) in o.outcomes {
                *m.outcomes.entry(k).or_default() += v;
            }
            m.violation_count += o.violation_count;
            for (k, v) in o.by_sig {
                *m.by_sig.entry(k).or_default() += v;
            }
            for smp in o.samples {
                match m.samples.iter_mut().find(|x| x.sig == smp.sig) {
                    Some(cur) => {
                        if (smp.preemptions, smp.choices.len(), &smp.choices) < (cur.preemptions, cur.choices.len(), &cur.choices) {
                            *cur = smp;
                        }
                    }
                    None => m.samples.push(smp),
                }
            }
            if m.ok_sample.is_none() {
                m.ok_sample = o.ok_sample;
            }
            m.deadlocks += o.deadlocks;
            m.capped |= o.capped;
            if m.machinery.is_none() {
                m.machinery = o.machinery;
            }
        }
    }
    merged
}

fn replay_e1(rep: &mut Report, name: &str, choices: &[usize], selftest: &'static str) {
    e1_init();
    let Some(scn) = scenarios().into_iter().find(|x| x.name == name) else { machinery("replay: unknown scenario") };
    let (bodies, check) = build(&scn, selftest);
    let r = vsched::run(choices, bodies);
    eprintln!("  schedule (thread per step): {:?}", r.thread_schedule());
    eprintln!("  (thread, lock#, kind) per step: {:?}", r.trace.iter().map(|s| (s.order[s.choice], s.op)).collect::<Vec<_>>());
    if let Some(m) = &r.machinery {
        machinery(m);
    }
    if r.deadlock {
        rep.violation("c19:conc:deadlock", "deadlock", json!({"part":"E1","scenario":name,"choices":choices}));
        return;
    }
    if let Some((t, m)) = r.panics.first() {
        rep.violation("c19:conc:panic", format!("panic in thread {t}: {m}"), json!({"part":"E1","scenario":name,"choices":choices}));
        return;
    }
    let j = check(&r);
    eprintln!("  outcome: {}", j.outcome);
    if let Some((sig, msg)) = j.viol {
        rep.violation(sig, format!("[{name}] {msg}"), json!({"part":"E1","scenario":name,"choices":choices}));
    }
}

// =================================================================================== main
fn main() {
    let args = nvc::report::Args::parse();
    let selftest: &'static str = Box::leak(args.flag("selftest").unwrap_or_default().into_boxed_str());
    let only = args.flag("scenario");
    let parts = args.flag("parts").unwrap_or_else(|| "S,Q,P,O,C,E1".into());
    if let (Some(part), true) = (args.worker, args.rest.iter().any(|a| a == "--e1")) {
        nvc::env::require();
        e1_worker(part, args.thorough(), only, selftest);
    }
    let prop = if selftest.is_empty() { "C19" } else { "C19-selftest" };
    let mut rep = Report::new(prop, "model_checking");
    let thorough = rep.thorough();
    nvc::env::require();
    nvc::env::clock_reset();
    nvc::env::clock_freeze(T0);

    if let Some(path) = rep.args.replay.clone() {
        let v: Value = serde_json::from_str(&std::fs::read_to_string(&path).unwrap_or_else(|e| machinery(&format!("cannot read {path}: {e}")))).unwrap_or_else(|e| machinery(&format!("bad replay json: {e}")));
        let r = v.get("replay").cloned().unwrap_or(v);
        match r.get("part").and_then(Value::as_str) {
            Some("Q") => {
                let ops: Vec<Op> = serde_json::from_value(r["ops"].clone()).unwrap_or_else(|e| machinery(&format!("bad ops: {e}")));
                replay_q(&mut rep, ops, selftest);
            }
            Some("E1") => {
                let choices: Vec<usize> = serde_json::from_value(r["choices"].clone()).unwrap_or_else(|e| machinery(&format!("bad choices: {e}")));
                replay_e1(&mut rep, r["scenario"].as_str().unwrap_or(""), &choices, selftest);
            }
            Some("P" | "O" | "C") => {
                let case: OCase = serde_json::from_value(r["case"].clone()).unwrap_or_else(|e| machinery(&format!("bad case: {e}")));
                let ops: Vec<OOp> = serde_json::from_value(r["ops"].clone()).unwrap_or_else(|e| machinery(&format!("bad ops: {e}")));
                replay_o(&mut rep, case, ops, selftest);
            }
            _ => machinery("replay: only parts Q, P, O, C and E1 can be replayed from a file (part S cases are self-describing)"),
        }
        rep.sample(json!({"replayed": path}));
        rep.finish();
    }

    rep.rule("S: chunk sizes x content sizes {0,1,cs-1,cs,cs+1,2cs-1,2cs,2cs+1,3cs+1,5cs+2} (thorough: 0..=5cs+2) x 2 content families x every split into 3 write() calls (empty writes included), then put of identical bytes, delete of the streamed twin, gc+full_gc; non-trivial = more than one chunk");
    rep.rule("Q (depth 6 quick / 8 thorough; second pass with gc_batch_size 2: depth 5 quick / 8 thorough): BFS over put(8 contents of sizes 1,3,4,4,5,8,8,9)/open_writer/write(5 pieces)/finish/drop_writer/delete/gc(after clock+61s)/full_gc/repair, chunk size 4, <=3 artifacts incl. one in-flight writer, <=3 writes per writer; dedup on canonical store state (artifact contents+chunk lists, chunk table with stored refcounts, writer progress); non-trivial = states where a chunk has >=2 references; every new state is probed: 4 alterations + removal per chunk per artifact, gc, full_gc, delete-one-by-one with gc, final full_gc");
    rep.rule("P: artifact #0 = \"aaaabbbba\" (chunks aaaa,bbbb,a) written by put and by writer+2 writes with PutOptions combinations of content_type {not given, \"\", custom} x tags {none, [t], [t,u], [t,t]} x links {none, [e], [e,e]} x custom metadata {none, 2 keys incl. empty key} x created_by {none, set} x filename {f, \"\"} x embedding {none, dense, sparse}: level 2 = all 864, level 1 = content_type x tags x links in full and of the other four fields none / each alone / all together (252), level 0 = content_type x tags x links (36); artifact #1 = put(\"aaaabbbb\") with default options; stores with default_content_type {default, \"\", text/plain} (primary; level 1 quick / 2 thorough, thorough also with #1 created first) and the same three with gc_min_age 0 and gc after 1 s (secondary; level 0 quick / 1 thorough); BFS over delete(#0)/delete(#1)/gc/full_gc/repair to the fixpoint, dedup on the canonical dump of every _blob: key (metadata records, index entries, chunk table with refcounts); a delete returning Err keeps the artifact in the reference iff exists() says so, every successful delete is repeated once; after every step each existing artifact reads back, after full_gc with no artifact left the chunk table is empty; integrity probes (4 alterations + removal of every chunk of both artifacts) at the initial state");
    rep.rule("O: same two artifacts (#0 with 3 (thorough 5) option sets, default_content_type default / \"\" (thorough also text/plain)); BFS of depth 4 (thorough 7) over update_metadata(content_type \"\" | image/png), update_metadata(filename, set key, delete key), set_meta, tag(t|n), untag(t|zz), link(e|m), unlink(e|zz), set_embedding on #0 plus delete(#0)/delete(#1)/gc/full_gc/repair; results of the metadata calls are not judged; every new state is drained (gc, full_gc, delete one by one with one retry after an error, gc after each, final full_gc leaves no chunk)");
    rep.rule("C: max_artifact_size {1,4,5,8,unlimited} x max_artifacts {unlimited,1} x put/stream x 4 contents x content_type {not given, \"\"} after put(\"aaaa\"): a refused write is tolerated, whatever exists must read back, then as in P");
    rep.rule("E1: every schedule with <= bound preemptions (scheduling point = every parking_lot lock acquisition inside /repo, via vendored lock_api; bound quick/thorough = 3/4 for 2 threads, 2/3 for 3 threads, -/2 for 4 threads) of 2-4 real threads running put/stream/delete/gc/full_gc on overlapping content; after quiescence: read back, gc, drain as in Q; outcome = per-thread results + completion order + chunk table with stored refcounts");
    rep.assume("tensor_blob futures never suspend (checked: a Pending poll aborts the run), so they are driven by a single poll instead of a tokio runtime: tokio is built with parking_lot, a runtime inside a scheduled thread would add irrelevant scheduling points");
    rep.assume("chunk alteration/removal for the integrity clause is injected through BlobStore::store() (the underlying TensorStore)");
    rep.assume("the statement does not promise that delete succeeds: an Err from delete is never a violation by itself; the artifact stays in the reference when exists() still reports it (it must then keep reading back across gc) and counts as deleted otherwise; `after all artifacts are deleted` is evaluated only when every delete went through (artifacts_undeletable_in_drain is reported)");
    rep.assume("listings and accessors (by_tag, by_content_type, by_creator, artifacts_for, links, get_meta, metadata fields other than size) and the results of tag/untag/link/unlink/update_metadata/set_meta/set_embedding are exercised but not judged: the statement is about bytes, chunks and collection only; the background collector (start/shutdown, gc_interval) needs a tokio runtime and wall-clock ticks and is not run; max_artifacts is set but /repo never reads it");
    rep.assume("a failed state is not expanded further (part Q); E1 explores each scenario with preemption bound, not all schedules");

    let mut total_states = 0u64;
    let mut total_transitions = 0u64;
    let mut total_evals = 0u64;
    let mut nontrivial = 0u64;

    let mut walls = serde_json::Map::new();
    if parts.contains('S') {
        let t0 = nvc::env::real_now_s();
        let ps = part_s(thorough, selftest);
        walls.insert("S".into(), json!(((nvc::env::real_now_s() - t0) * 10.0).round() / 10.0));
        for (sig, msg, r) in &ps.viol {
            rep.violation(sig.clone(), msg.clone(), r.clone());
        }
        for _ in ps.viol.len() as u64..ps.viol_count {
            rep.violation("c19:stream:more", "", json!({}));
        }
        if let Some(smp) = ps.sample.clone() {
            rep.sample(smp);
        }
        rep.part("S", json!({"contents": ps.contents, "split_cases": ps.cases, "multi_chunk_cases": ps.multi_chunk_cases, "oracle_comparisons": ps.evals, "violating_cases": ps.viol_count}));
        total_transitions += ps.cases;
        total_evals += ps.evals;
        nontrivial += ps.multi_chunk_cases;
        if ps.multi_chunk_cases < 100 {
            rep.machinery("vacuous part S");
        }
    }

    // part Q twice: with the default collector batch (100) and with a batch of 2, smaller than the number
    // of artifacts and chunks the sequences create (the incremental and the full collector scan in batches);
    // quick tier: the second pass one level shallower (time budget shared with parts P / O / C)
    for (batch, pname) in [(0usize, "Q"), (2, "Q_gc_batch_2")] {
        if !parts.contains('Q') {
            break;
        }
        GC_BATCH.store(batch, std::sync::atomic::Ordering::Relaxed);
        let depth = args.flag("depth").and_then(|d| d.parse().ok()).unwrap_or(if thorough { 8 } else if batch == 0 { 6 } else { 5 });
        let t0 = nvc::env::real_now_s();
        let q = part_q(&mut rep, depth, selftest);
        walls.insert(pname.into(), json!(((nvc::env::real_now_s() - t0) * 10.0).round() / 10.0));
        rep.part(
            pname,
            json!({"gc_batch_size": if batch == 0 { 100 } else { batch }, "depth": q.depth, "states": q.states, "states_with_shared_chunk": q.shared_states, "transitions": q.transitions, "ops_executed_incl_replay": q.ops_run,
                   "oracle_comparisons": q.evals, "states_probed": q.probed, "violating_transitions": q.violating, "violations_by_signature": q.by_sig,
                   "levels(depth,expanded,new_states)": q.per_level}),
        );
        total_states += q.states;
        total_transitions += q.transitions;
        total_evals += q.evals;
        nontrivial += q.shared_states;
        if q.states < 200 || q.shared_states < 20 {
            rep.machinery("vacuous part Q: too few states");
        }
    }
    GC_BATCH.store(0, std::sync::atomic::Ordering::Relaxed);

    // parts P / O / C: option space of put / stream-write, store configuration, metadata-rewriting calls
    for pname in ["P", "O", "C"] {
        if !parts.contains(pname) {
            continue;
        }
        let t0 = nvc::env::real_now_s();
        let o_depth = args.flag("odepth").and_then(|d| d.parse().ok()).unwrap_or(if thorough { 7 } else { 4 });
        let (cases, inner_par) = match pname {
            "P" => (cases_p(thorough), false),
            "O" => (cases_o(thorough, o_depth), true),
            _ => (cases_c(), false),
        };
        let r = run_cases(&cases, inner_par, selftest);
        for (sig, msg, rj) in &r.viols {
            rep.violation(sig.clone(), msg.clone(), rj.clone());
        }
        for (sig, n) in &r.by_sig {
            let kept = r.viols.iter().filter(|v| &v.0 == sig).count() as u64;
            for _ in kept..*n {
                rep.violation(sig.clone(), "", json!({}));
            }
        }
        if let Some(smp) = r.sample.clone() {
            rep.sample(smp);
        }
        let mut pj = r.to_json();
        pj["wall_s"] = json!(((nvc::env::real_now_s() - t0) * 10.0).round() / 10.0);
        if pname == "O" {
            pj["depth"] = json!(o_depth);
        }
        rep.part(pname, pj);
        total_states += r.states;
        total_transitions += r.transitions + r.cases;
        total_evals += r.evals;
        nontrivial += r.shared_states;
        match pname {
            "P" => {
                // every option combination must have produced a different stored record
                // (content type given explicitly as "" and a default of "" are the same record)
                let eff = |c: &OCase, o: Opt| if o.ct == 0 { [0u8, 1, 3][c.cfg.dct as usize] } else { o.ct };
                let combos = cases.iter().map(|c| (c.creates.iter().map(|x| (eff(c, x.opt), Opt { ct: 0, ..x.opt }, x.content)).collect::<Vec<_>>())).collect::<HashSet<_>>().len();
                if r.violating == 0 && (r.root_keys.len() < combos || r.del_ok < r.cases || r.not_fixpoint > 0) {
                    rep.machinery(format!("vacuous part P: {} distinct initial states for {combos} option/config combinations, {} deletes, {} cases cut", r.root_keys.len(), r.del_ok, r.not_fixpoint));
                }
            }
            "O" => {
                if r.violating == 0 && (r.states < 500 || r.mut_ok < 500) {
                    rep.machinery("vacuous part O: too few states");
                }
                if r.not_fixpoint == 0 {
                    rep.set("part_O_reached_fixpoint", json!(true));
                }
            }
            _ => {
                if r.violating == 0 && (r.create_err == 0 || r.states < 100) {
                    rep.machinery("vacuous part C: no write was refused");
                }
            }
        }
    }

    if parts.contains("E1") {
        let n = nvc::par::worker_count();
        let mut extra = vec!["--e1".to_string()];
        if let Some(o) = &only {
            extra.push(format!("--scenario={o}"));
        }
        let t0 = nvc::env::real_now_s();
        let all: Vec<Vec<ScnOut>> = nvc::par::spawn_workers(n, &extra);
        walls.insert("E1".into(), json!(((nvc::env::real_now_s() - t0) * 10.0).round() / 10.0));
        let merged = merge_e1(all);
        let mut e1 = serde_json::Map::new();
        let mut e1_samples: Vec<(String, VSample, u64)> = vec![];
        for m in &merged {
            if let Some(msg) = &m.machinery {
                rep.machinery(format!("vsched: {} in scenario {}", msg, m.name));
            }
            if m.capped {
                rep.capped(&format!("E1 scenario {} hit the execution cap", m.name));
            }
            if m.outcomes.len() < 2 {
                rep.machinery(format!("vacuous E1 scenario {}: {} distinct outcome(s)", m.name, m.outcomes.len()));
            }
            for smp in &m.samples {
                e1_samples.push((m.name.clone(), smp.clone(), m.by_sig.get(&smp.sig).copied().unwrap_or(1).max(1)));
            }
            if let Some((o, sch)) = &m.ok_sample {
                rep.sample(json!({"part":"E1","scenario": m.name, "schedule_threads": sch, "outcome": o}));
            }
            let top: Vec<(&String, &u64)> = m.outcomes.iter().take(6).collect();
            e1.insert(
                m.name.clone(),
                json!({"threads": m.threads, "preemption_bound": m.bound, "executions": m.executions, "sched_points": m.sched_points, "max_points_per_execution": m.max_points,
                       "executions_by_preemptions": m.by_preemptions, "distinct_outcomes": m.outcomes.len(), "violating_executions": m.violation_count,
                       "violations_by_signature": m.by_sig, "deadlocks": m.deadlocks, "some_outcomes": top}),
            );
            total_states += m.outcomes.len() as u64;
            total_transitions += m.sched_points;
            total_evals += m.executions;
            nontrivial += m.by_preemptions.iter().filter(|(k, _)| **k > 0).map(|(_, v)| *v).sum::<u64>();
        }
        // simplest counterexamples first (fewest preemptions, then shortest schedule); one artefact per
        // (scenario, signature), the remaining violating executions are only counted
        e1_samples.sort_by(|a, b| (a.1.preemptions, a.1.choices.len(), &a.0).cmp(&(b.1.preemptions, b.1.choices.len(), &b.0)));
        for (name, smp, _) in &e1_samples {
            rep.violation(
                smp.sig.clone(),
                format!("[{name}] {} | schedule (thread per scheduling point) {:?}, {} preemption(s)", smp.message, smp.threads, smp.preemptions),
                json!({"part":"E1","scenario": name, "choices": smp.choices, "threads": smp.threads, "preemptions": smp.preemptions}),
            );
        }
        for (_, smp, n) in &e1_samples {
            if rep.violations.iter().filter(|v| v.signature == smp.sig).count() >= 3 {
                for _ in 1..*n {
                    rep.violation(smp.sig.clone(), "", json!({}));
                }
            }
        }
        rep.part("E1", Value::Object(e1));
        rep.part("E1_workers", json!(n));
    }

    rep.part("wall_s_per_part(not a count; varies with machine load)", Value::Object(walls));
    rep.add("states", total_states);
    rep.add("transitions", total_transitions);
    rep.add("traces_validated_against_impl", total_transitions);
    rep.add("evaluations", total_evals);
    rep.add("distinct_nontrivial", nontrivial);
    rep.set("explanation", json!("no separate model: every operation is the real tensor_blob code on a real TensorStore; the reference is the byte strings handed to put/write"));
    rep.finish();
}
