//! C19 — blob store returns the bytes that were stored and never collects live data.
//!
//! Part S  (E4, input domain): every chunk size x content size around the chunk boundaries x every
//!          split of the content into <=3 `write` calls (empty writes included): the streamed
//!          artifact reads back exactly, verifies, and a `put` of the same bytes adds no chunk.
//! Part Q  (E4, sequences): BFS over put / open-writer / write(piece) / finish / abandon / delete /
//!          gc / full_gc / repair (chunk size 4, <=3 artifacts incl. one in-flight writer), dedup on
//!          the canonical store state. After every step: every live artifact reads back (get,
//!          streaming reader, verify, reader.verify, metadata size, stats, list). On every new state,
//!          destructive probes on the discarded execution: single-chunk alteration/removal must make
//!          `verify` report; gc and full_gc must keep every live artifact; deleting the artifacts one
//!          by one (+gc) must keep the remaining ones; after the last delete full_gc leaves no chunk.
//! Part E1 (concurrent): real threads under vsched (every parking_lot acquisition inside /repo is a
//!          scheduling point), all schedules with <= bound preemptions: writers || deleters || gc /
//!          full_gc over overlapping content. At quiescence every existing artifact reads back; then
//!          the same sequential drain as in part Q.
//!
//! Reference oracle: the bytes handed to put/write, nothing else.
use nvc::Report;
use rayon::prelude::*;
use serde::{Deserialize, Serialize};
use serde_json::{json, Value};
use std::cell::RefCell;
use std::collections::{BTreeMap, BTreeSet, HashSet};
use std::future::Future;
use std::rc::Rc;
use std::sync::{Arc, Mutex};
use std::task::{Context, Poll, Waker};
use tensor_blob::{BlobConfig, BlobStore, BlobWriter, PutOptions};
use tensor_store::{ScalarValue, TensorData, TensorStore, TensorValue};

const CHUNK: usize = 4;
const T0: i64 = 1_700_000_000;
/// one second more than the default gc_min_age (60 s)
const AGE_MS: i64 = 61_000;

const SIG_FULLGC: &str = "c19:unfinished-upload:chunk-collected-by-full_gc";
const SIG_REPAIR: &str = "c19:unfinished-upload:refs-reset-by-repair";
const SIG_REFRACE: &str = "c19:refcount-race:live-chunk-collected";

/// tensor_blob's API is `async` but contains no real suspension point (`clippy::unused_async`):
/// poll once with a no-op waker. `Pending` would mean a tokio primitive sits on the path, which the
/// scheduler cannot intercept — that is a machinery failure, not a verdict.
fn now<F: Future>(f: F) -> F::Output {
    let mut f = std::pin::pin!(f);
    let mut cx = Context::from_waker(Waker::noop());
    match f.as_mut().poll(&mut cx) {
        Poll::Ready(v) => v,
        Poll::Pending => {
            eprintln!("MACHINERY c19: a tensor_blob future suspended (real await on the path)");
            std::process::exit(2);
        }
    }
}

fn machinery(msg: &str) -> ! {
    eprintln!("MACHINERY c19: {msg}");
    std::process::exit(2);
}

// TensorStore::new() zero-fills tens of MB (embedding slab) and TensorStore::clear() re-maps a 64 MB
// blob-log segment (mmap/munmap serialises the worker threads), so a store is reused after deleting
// every key the blob layer wrote, through the real TensorStore::delete; emptiness is asserted.
thread_local! { static POOL: RefCell<Vec<TensorStore>> = const { RefCell::new(Vec::new()) }; }

fn take_store() -> TensorStore {
    match POOL.with(|p| p.borrow_mut().pop()) {
        Some(st) => {
            for k in st.scan("_blob:") {
                let _ = st.delete(&k);
            }
            if !st.is_empty() || !st.scan("_").is_empty() {
                machinery("recycled TensorStore is not empty");
            }
            st
        }
        None => TensorStore::new(),
    }
}

/// BlobStore on a pooled TensorStore; the store goes back to the pool of the dropping thread.
struct Blob {
    b: BlobStore,
}
impl std::ops::Deref for Blob {
    type Target = BlobStore;
    fn deref(&self) -> &BlobStore {
        &self.b
    }
}
impl Drop for Blob {
    fn drop(&mut self) {
        let st = self.b.store().clone();
        POOL.with(|p| {
            let mut p = p.borrow_mut();
            if p.len() < 4 {
                p.push(st);
            }
        });
    }
}

/// gc_batch_size of the stores built by `new_blob` (0 = the default of 100)
static GC_BATCH: std::sync::atomic::AtomicUsize = std::sync::atomic::AtomicUsize::new(0);
fn new_blob(chunk: usize) -> Blob {
    match now(BlobStore::new(take_store(), { let c = BlobConfig::new().with_chunk_size(chunk); match GC_BATCH.load(std::sync::atomic::Ordering::Relaxed) { 0 => c, b => c.with_gc_batch_size(b) } })) {
        Ok(b) => Blob { b },
        Err(e) => machinery(&format!("BlobStore::new failed: {e}")),
    }
}

fn s(b: &[u8]) -> String {
    String::from_utf8_lossy(b).into_owned()
}

fn t_int(t: &TensorData, f: &str) -> Option<i64> {
    match t.get(f) {
        Some(TensorValue::Scalar(ScalarValue::Int(i))) => Some(*i),
        _ => None,
    }
}
fn t_bytes(t: &TensorData, f: &str) -> Option<Vec<u8>> {
    match t.get(f) {
        Some(TensorValue::Scalar(ScalarValue::Bytes(b))) => Some(b.clone()),
        _ => None,
    }
}

/// (chunk data, stored reference count) of every chunk entry, sorted
fn chunk_table(b: &BlobStore) -> Vec<(String, i64)> {
    let mut v: Vec<(String, i64)> = b
        .store()
        .scan("_blob:chunk:")
        .into_iter()
        .filter_map(|k| b.store().get(&k).ok())
        .map(|t| (t_bytes(&t, "_data").map_or("<no data>".to_string(), |d| s(&d)), t_int(&t, "_refs").unwrap_or(-1)))
        .collect();
    v.sort();
    v
}

fn art_chunk_keys(b: &BlobStore, id: &str) -> Vec<String> {
    match b.store().get(&format!("_blob:meta:{id}")) {
        Ok(t) => match t.get("_chunks") {
            Some(TensorValue::Pointers(p)) => p.clone(),
            _ => vec![],
        },
        Err(_) => vec![],
    }
}

/// Everything the statement says about reading one existing artifact. `Err(kind)` on the first failure.
fn read_check(b: &BlobStore, id: &str, want: &[u8]) -> Result<(), String> {
    match now(b.exists(id)) {
        Ok(true) => {}
        other => return Err(format!("exists -> {other:?}")),
    }
    match now(b.get(id)) {
        Ok(got) if got == want => {}
        Ok(got) => return Err(format!("get -> {:?}, stored {:?}", s(&got), s(want))),
        Err(e) => return Err(format!("get -> Err({e})")),
    }
    match now(b.reader(id)) {
        Ok(mut r) => {
            let mut got = vec![];
            let mut buf = [0u8; 3];
            loop {
                match now(r.read(&mut buf)) {
                    Ok(0) => break,
                    Ok(n) => got.extend_from_slice(&buf[..n]),
                    Err(e) => return Err(format!("reader.read -> Err({e})")),
                }
                if got.len() > want.len() + 64 {
                    break;
                }
            }
            if got != want {
                return Err(format!("reader -> {:?}, stored {:?}", s(&got), s(want)));
            }
            match now(r.verify()) {
                Ok(true) => {}
                other => return Err(format!("reader.verify on intact artifact -> {other:?}")),
            }
        }
        Err(e) => return Err(format!("reader -> Err({e})")),
    }
    match b.verify(id) {
        Ok(true) => {}
        other => return Err(format!("verify on intact artifact -> {other:?}")),
    }
    match now(b.metadata(id)) {
        Ok(m) if m.size == want.len() => {}
        Ok(m) => return Err(format!("metadata.size {} != {}", m.size, want.len())),
        Err(e) => return Err(format!("metadata -> Err({e})")),
    }
    Ok(())
}

// =================================================================================== Part S
#[derive(Default)]
struct PartS {
    cases: u64,
    contents: u64,
    evals: u64,
    multi_chunk_cases: u64,
    viol: Vec<(String, String, Value)>,
    viol_count: u64,
    sample: Option<Value>,
}

fn content_family(fam: u8, n: usize, cs: usize) -> Vec<u8> {
    // fam 0: one repeated byte (every full chunk identical); fam 1: chunks alternate a.., b.., a.., c..
    (0..n)
        .map(|i| match fam {
            0 => b'a',
            _ => [b'a', b'b', b'a', b'c'][(i / cs) % 4],
        })
        .collect()
}

fn part_s(thorough: bool, selftest: &str) -> PartS {
    let chunk_sizes: Vec<usize> = if thorough { vec![1, 2, 3, 4, 5, 7, 8] } else { vec![1, 2, 3, 4, 5, 8] };
    let mut jobs: Vec<(usize, u8, usize)> = vec![];
    for &cs in &chunk_sizes {
        let sizes: BTreeSet<usize> = if thorough {
            (0..=5 * cs + 2).collect()
        } else {
            [0, 1, cs.saturating_sub(1), cs, cs + 1, 2 * cs - 1, 2 * cs, 2 * cs + 1, 3 * cs + 1, 5 * cs + 2].into_iter().collect()
        };
        for n in sizes {
            for fam in 0..2u8 {
                if fam == 1 && n <= cs {
                    continue; // identical to family 0
                }
                jobs.push((cs, fam, n));
            }
        }
    }
    let parts: Vec<PartS> = jobs
        .par_iter()
        .map(|&(cs, fam, n)| {
            let mut r = PartS::default();
            r.contents += 1;
            let data = content_family(fam, n, cs);
            let want_chunks = n.div_ceil(cs);
            let distinct: BTreeSet<&[u8]> = data.chunks(cs).collect();
            for c1 in 0..=n {
                for c2 in c1..=n {
                    r.cases += 1;
                    if want_chunks > 1 {
                        r.multi_chunk_cases += 1;
                    }
                    let b = new_blob(cs);
                    let mut fail: Option<(String, String)> = None;
                    let id = (|| -> Result<String, String> {
                        let mut w = now(b.writer("f", PutOptions::new())).map_err(|e| e.to_string())?;
                        for piece in [&data[..c1], &data[c1..c2], &data[c2..]] {
                            now(w.write(piece)).map_err(|e| e.to_string())?;
                        }
                        now(w.finish()).map_err(|e| e.to_string())
                    })();
                    let id = match id {
                        Ok(id) => id,
                        Err(e) => machinery(&format!("streamed write failed on an idle store: {e}")),
                    };
                    let mut want = data.clone();
                    if selftest == "stream" && n == cs + 1 && c1 == 1 {
                        want[0] ^= 1;
                    }
                    r.evals += 1;
                    if let Err(e) = read_check(&b, &id, &want) {
                        fail = Some(("c19:stream:read-mismatch".into(), e));
                    }
                    if fail.is_none() {
                        let m = now(b.metadata(&id)).unwrap();
                        let table = chunk_table(&b);
                        r.evals += 1;
                        if m.chunk_count != want_chunks || table.len() != distinct.len() {
                            fail = Some(("c19:stream:chunking".into(), format!("chunk_count {} (want {want_chunks}), chunk entries {} (distinct contents {})", m.chunk_count, table.len(), distinct.len())));
                        }
                    }
                    // identical content stored once: a put of the same bytes adds no chunk entry
                    if fail.is_none() && n > 0 {
                        let before = chunk_table(&b).len();
                        match now(b.put("g", &data, PutOptions::new())) {
                            Ok(id2) => {
                                r.evals += 2;
                                let after = chunk_table(&b).len();
                                if after != before {
                                    fail = Some(("c19:dedup:identical-content-stored-twice".into(), format!("chunk entries {before} -> {after} after put of identical bytes")));
                                } else if let Err(e) = read_check(&b, &id2, &data).and_then(|()| read_check(&b, &id, &data)) {
                                    fail = Some(("c19:stream:read-mismatch".into(), format!("after put of identical bytes: {e}")));
                                } else {
                                    // delete the streamed one: the put one must survive gc and full_gc
                                    let _ = now(b.delete(&id));
                                    nvc::env::clock_advance_ms(AGE_MS);
                                    let _ = now(b.gc());
                                    let _ = now(b.full_gc());
                                    r.evals += 1;
                                    if let Err(e) = read_check(&b, &id2, &data) {
                                        fail = Some(("c19:delete-damages-sharing-artifact".into(), e));
                                    }
                                }
                            }
                            Err(e) => machinery(&format!("put failed on an idle store: {e}")),
                        }
                    }
                    if let Some((sig, msg)) = fail {
                        r.viol_count += 1;
                        if r.viol.len() < 2 {
                            let rj = json!({"part":"S","chunk_size":cs,"content":s(&data),"writes":[s(&data[..c1]), s(&data[c1..c2]), s(&data[c2..])]});
                            r.viol.push((sig, format!("chunk_size={cs} content={:?} writes at cuts ({c1},{c2}): {msg}", s(&data)), rj));
                        }
                    }
                    if r.sample.is_none() && fam == 1 && n == 3 * cs + 1 && c1 == 1 && c2 == cs + 2 {
                        r.sample = Some(json!({"part":"S","chunk_size":cs,"content":s(&data),"writes":[s(&data[..c1]), s(&data[c1..c2]), s(&data[c2..])],"chunks":want_chunks,"distinct_chunks":distinct.len()}));
                    }
                }
            }
            r
        })
        .collect();
    let mut t = PartS::default();
    for r in parts {
        t.cases += r.cases;
        t.contents += r.contents;
        t.evals += r.evals;
        t.multi_chunk_cases += r.multi_chunk_cases;
        t.viol_count += r.viol_count;
        for v in r.viol {
            if t.viol.iter().filter(|x| x.0 == v.0).count() < 3 {
                t.viol.push(v);
            }
        }
        if t.sample.is_none() {
            t.sample = r.sample;
        }
    }
    t
}

// =================================================================================== Part Q
const CONTENTS: [&str; 8] = ["a", "aaa", "aaaa", "bbbb", "aaaaa", "aaaaaaaa", "aaaabbbb", "aaaabbbba"];
const PIECES: [&str; 5] = ["a", "aaa", "aaaa", "bbbb", "aaaabbbb"];
const MAX_ARTS: usize = 3;
const MAX_WRITES: u8 = 3;
const TAINT_FULLGC: u8 = 1;
const TAINT_REPAIR: u8 = 2;

#[derive(Clone, Copy, Debug, PartialEq, Eq, Hash, Serialize, Deserialize)]
enum Op {
    Put(u8),
    Open,
    W(u8),
    Finish,
    Abandon,
    Delete(u8),
    Gc,
    FullGc,
    Repair,
}
fn show(op: Op) -> String {
    match op {
        Op::Put(c) => format!("put({:?})", CONTENTS[c as usize]),
        Op::Open => "open_writer".into(),
        Op::W(p) => format!("write({:?})", PIECES[p as usize]),
        Op::Finish => "finish".into(),
        Op::Abandon => "drop_writer".into(),
        Op::Delete(i) => format!("delete(live#{i})"),
        Op::Gc => "clock+61s;gc".into(),
        Op::FullGc => "full_gc".into(),
        Op::Repair => "repair".into(),
    }
}
fn show_path(p: &[Op]) -> Vec<String> {
    p.iter().map(|o| show(*o)).collect()
}

struct Art {
    id: String,
    bytes: Vec<u8>,
    live: bool,
    taint: u8,
}
struct WriterSt {
    w: BlobWriter,
    written: Vec<u8>,
    n: u8,
    taint: u8,
}
struct World {
    blob: Blob,
    arts: Vec<Art>,
    writer: Option<WriterSt>,
    /// a collector ran while an upload with stored chunks was unfinished (known damage pattern):
    /// later failures in this history are attributed to it
    world_taint: u8,
    selftest_bytes: bool,
}

impl World {
    fn new(selftest: &str) -> World {
        World { blob: new_blob(CHUNK), arts: vec![], writer: None, world_taint: 0, selftest_bytes: selftest == "bytes" }
    }
    fn live(&self) -> Vec<usize> {
        (0..self.arts.len()).filter(|&i| self.arts[i].live).collect()
    }
    fn enabled(&self) -> Vec<Op> {
        let mut v = vec![];
        let live = self.live().len();
        let slots = live + usize::from(self.writer.is_some());
        if slots < MAX_ARTS {
            for c in 0..CONTENTS.len() {
                v.push(Op::Put(c as u8));
            }
            if self.writer.is_none() {
                v.push(Op::Open);
            }
        }
        if let Some(w) = &self.writer {
            if w.n < MAX_WRITES {
                for p in 0..PIECES.len() {
                    v.push(Op::W(p as u8));
                }
            }
            v.push(Op::Finish);
            v.push(Op::Abandon);
        }
        for i in 0..live {
            v.push(Op::Delete(i as u8));
        }
        v.push(Op::Gc);
        v.push(Op::FullGc);
        v.push(Op::Repair);
        v
    }
    /// run one operation on the real store and on the reference (the reference is `arts[..].bytes`)
    fn apply(&mut self, op: Op) {
        match op {
            Op::Put(c) => {
                let bytes = CONTENTS[c as usize].as_bytes().to_vec();
                match now(self.blob.put("f", &bytes, PutOptions::new())) {
                    Ok(id) => {
                        let mut want = bytes;
                        if self.selftest_bytes && want.len() == 5 {
                            want[4] = b'b'; // deliberately wrong expectation (oracle self-test)
                        }
                        self.arts.push(Art { id, bytes: want, live: true, taint: 0 })
                    }
                    Err(e) => machinery(&format!("put of non-empty data failed: {e}")),
                }
            }
            Op::Open => match now(self.blob.writer("f", PutOptions::new())) {
                Ok(w) => self.writer = Some(WriterSt { w, written: vec![], n: 0, taint: 0 }),
                Err(e) => machinery(&format!("writer() failed: {e}")),
            },
            Op::W(p) => {
                let ws = self.writer.as_mut().unwrap();
                let piece = PIECES[p as usize].as_bytes();
                if let Err(e) = now(ws.w.write(piece)) {
                    machinery(&format!("write failed: {e}"));
                }
                ws.written.extend_from_slice(piece);
                ws.n += 1;
            }
            Op::Finish => {
                let ws = self.writer.take().unwrap();
                match now(ws.w.finish()) {
                    Ok(id) => self.arts.push(Art { id, bytes: ws.written, live: true, taint: ws.taint }),
                    Err(e) => machinery(&format!("finish failed: {e}")),
                }
            }
            Op::Abandon => {
                self.writer = None;
            }
            Op::Delete(i) => {
                let idx = self.live()[i as usize];
                if let Err(e) = now(self.blob.delete(&self.arts[idx].id)) {
                    machinery(&format!("delete of an existing artifact failed: {e}"));
                }
                self.arts[idx].live = false;
            }
            Op::Gc => {
                nvc::env::clock_advance_ms(AGE_MS);
                if let Err(e) = now(self.blob.gc()) {
                    machinery(&format!("gc failed: {e}"));
                }
            }
            Op::FullGc => {
                if let Err(e) = now(self.blob.full_gc()) {
                    machinery(&format!("full_gc failed: {e}"));
                }
                if let Some(ws) = self.writer.as_mut() {
                    if ws.written.len() >= CHUNK {
                        ws.taint |= TAINT_FULLGC;
                        self.world_taint |= TAINT_FULLGC;
                    }
                }
            }
            Op::Repair => {
                if let Err(e) = self.blob.repair() {
                    machinery(&format!("repair failed: {e}"));
                }
                if let Some(ws) = self.writer.as_mut() {
                    if ws.written.len() >= CHUNK {
                        ws.taint |= TAINT_REPAIR;
                        self.world_taint |= TAINT_REPAIR;
                    }
                }
            }
        }
    }
    fn replay(path: &[Op], selftest: &str) -> World {
        let mut w = World::new(selftest);
        for &op in path {
            w.apply(op);
        }
        w
    }
    /// canonical state: artifacts in creation order (content + chunk list as data), chunk table
    /// (data, refs), writer progress. Chunk age is irrelevant: `Gc` always advances the clock first.
    fn key(&self) -> (String, bool) {
        let mut k = String::new();
        for i in self.live() {
            let a = &self.arts[i];
            k.push_str(&s(&a.bytes));
            if a.taint != 0 {
                k.push_str(&format!("t{}", a.taint));
            }
            k.push('[');
            for ck in art_chunk_keys(&self.blob, &a.id) {
                match self.blob.store().get(&ck) {
                    Ok(t) => k.push_str(&t_bytes(&t, "_data").map_or("?".into(), |d| s(&d))),
                    Err(_) => k.push_str("<missing>"),
                }
                k.push(',');
            }
            k.push_str("];");
        }
        k.push('|');
        let table = chunk_table(&self.blob);
        let shared = table.iter().any(|(_, r)| *r >= 2);
        for (d, r) in &table {
            k.push_str(&format!("{d}:{r},"));
        }
        k.push('|');
        if let Some(w) = &self.writer {
            k.push_str(&format!("W{}:{}:t{}", w.n, s(&w.written), w.taint));
        }
        if self.world_taint != 0 {
            k.push_str(&format!("|T{}", self.world_taint));
        }
        (k, shared)
    }
    fn sig_for(&self, idx: usize, ctx: &str) -> String {
        let t = if self.arts[idx].taint != 0 { self.arts[idx].taint } else { self.world_taint };
        if t & TAINT_FULLGC != 0 {
            SIG_FULLGC.into()
        } else if t & TAINT_REPAIR != 0 {
            SIG_REPAIR.into()
        } else {
            format!("c19:seq:{ctx}")
        }
    }
    /// non-destructive check of everything observable after a step
    fn step_check(&self, evals: &mut u64) -> Option<(String, String)> {
        let mut live_ids = BTreeSet::new();
        let mut total = 0usize;
        for (i, a) in self.arts.iter().enumerate() {
            *evals += 1;
            if a.live {
                live_ids.insert(a.id.clone());
                total += a.bytes.len();
                if let Err(e) = read_check(&self.blob, &a.id, &a.bytes) {
                    return Some((self.sig_for(i, "read-mismatch"), format!("artifact #{i} ({:?}): {e}", s(&a.bytes))));
                }
            } else {
                let ex = now(self.blob.exists(&a.id));
                let g = now(self.blob.get(&a.id));
                if ex != Ok(false) || g.is_ok() {
                    return Some(("c19:seq:deleted-artifact-readable".into(), format!("deleted artifact #{i}: exists -> {ex:?}, get ok = {}", g.is_ok())));
                }
            }
        }
        *evals += 1;
        match now(self.blob.stats()) {
            Ok(st) => {
                if st.artifact_count != live_ids.len() || st.total_bytes != total {
                    return Some(("c19:seq:stats".into(), format!("stats: {} artifacts / {} bytes, reference {} / {}", st.artifact_count, st.total_bytes, live_ids.len(), total)));
                }
            }
            Err(e) => machinery(&format!("stats failed: {e}")),
        }
        match now(self.blob.list(None)) {
            Ok(l) => {
                let got: BTreeSet<String> = l.into_iter().collect();
                if got != live_ids {
                    return Some(("c19:seq:list".into(), format!("list() = {} ids, reference {}", got.len(), live_ids.len())));
                }
            }
            Err(e) => machinery(&format!("list failed: {e}")),
        }
        // identical content is stored once
        let table = chunk_table(&self.blob);
        let distinct: BTreeSet<&String> = table.iter().map(|(d, _)| d).collect();
        if distinct.len() != table.len() {
            return Some(("c19:dedup:identical-content-stored-twice".into(), format!("chunk table {table:?}")));
        }
        None
    }
    fn check_live(&self, ctx: &str, evals: &mut u64) -> Option<(String, String)> {
        for i in self.live() {
            let a = &self.arts[i];
            *evals += 1;
            if let Err(e) = read_check(&self.blob, &a.id, &a.bytes) {
                return Some((self.sig_for(i, ctx), format!("artifact #{i} ({:?}) {ctx}: {e}; chunk table {:?}", s(&a.bytes), chunk_table(&self.blob))));
            }
        }
        None
    }
    /// destructive continuation of this execution (the execution is discarded afterwards)
    fn probes(mut self, evals: &mut u64, selftest: &str) -> Option<(String, String)> {
        // 1. integrity: every single-chunk alteration / removal must be reported by verify
        for i in self.live() {
            let id = self.arts[i].id.clone();
            let keys: BTreeSet<String> = art_chunk_keys(&self.blob, &id).into_iter().collect();
            for ck in keys {
                let Ok(orig) = self.blob.store().get(&ck) else { continue };
                let Some(data) = t_bytes(&orig, "_data") else { continue };
                let mut variants: Vec<(&str, Vec<u8>)> = vec![];
                let mut flipped = data.clone();
                flipped[0] ^= 0x01;
                variants.push(("first byte flipped", flipped));
                let mut last = data.clone();
                *last.last_mut().unwrap() ^= 0x20;
                variants.push(("last byte changed", last));
                variants.push(("one byte shorter", data[..data.len() - 1].to_vec()));
                let mut longer = data.clone();
                longer.push(data[0]);
                variants.push(("one byte longer", longer));
                if selftest == "verify" {
                    variants.push(("unchanged (self-test)", data.clone()));
                }
                for (what, alt) in variants {
                    let mut t = orig.clone();
                    t.set("_data", TensorValue::Scalar(ScalarValue::Bytes(alt.clone())));
                    let _ = self.blob.store().put(&ck, t);
                    *evals += 2;
                    let v = self.blob.verify(&id);
                    let rv = now(self.blob.reader(&id)).ok().map(|mut r| now(r.verify()));
                    let _ = self.blob.store().put(&ck, orig.clone());
                    if v == Ok(true) || rv == Some(Ok(true)) {
                        return Some(("c19:verify-misses-altered-chunk".into(), format!("artifact #{i} ({:?}), chunk {:?} {what} -> {:?}: verify -> {v:?}, reader.verify -> {rv:?}", s(&self.arts[i].bytes), s(&data), s(&alt))));
                    }
                }
                let _ = self.blob.store().delete(&ck);
                *evals += 2;
                let v = self.blob.verify(&id);
                let rv = now(self.blob.reader(&id)).ok().map(|mut r| now(r.verify()));
                let _ = self.blob.store().put(&ck, orig.clone());
                if v == Ok(true) || rv == Some(Ok(true)) {
                    return Some(("c19:verify-misses-missing-chunk".into(), format!("artifact #{i} ({:?}), chunk {:?} removed: verify -> {v:?}, reader.verify -> {rv:?}", s(&self.arts[i].bytes), s(&data))));
                }
            }
        }
        // 2. collection keeps every live artifact
        nvc::env::clock_advance_ms(AGE_MS);
        let _ = now(self.blob.gc());
        if let Some(v) = self.check_live("after clock+61s;gc", evals) {
            return Some(v);
        }
        let _ = now(self.blob.full_gc());
        if let Some(v) = self.check_live("after full_gc", evals) {
            return Some(v);
        }
        // 3. drain: delete one by one; the rest must survive gc; at the end full_gc leaves nothing
        self.writer = None;
        for i in self.live() {
            if let Err(e) = now(self.blob.delete(&self.arts[i].id)) {
                machinery(&format!("drain delete failed: {e}"));
            }
            self.arts[i].live = false;
            nvc::env::clock_advance_ms(AGE_MS);
            let _ = now(self.blob.gc());
            if let Some(v) = self.check_live("after delete of another artifact + clock+61s;gc", evals) {
                return Some(v);
            }
        }
        nvc::env::clock_advance_ms(AGE_MS);
        let _ = now(self.blob.full_gc());
        *evals += 1;
        let left = chunk_table(&self.blob);
        if !left.is_empty() {
            return Some(("c19:full-gc-leaves-chunks".into(), format!("all artifacts deleted, full_gc left {left:?}")));
        }
        None
    }
}

struct TR {
    path: Vec<Op>,
    key: String,
    shared: bool,
    viol: Option<(String, String)>,
    evals: u64,
    ops: u64,
    probed: bool,
}

fn expand(path: &[Op], seen: &HashSet<String>, selftest: &str) -> Vec<TR> {
    let ops = World::replay(path, selftest).enabled();
    let mut out = vec![];
    for op in ops {
        let mut w = World::replay(path, selftest);
        w.apply(op);
        let mut p = path.to_vec();
        p.push(op);
        let mut evals = 0u64;
        let mut viol = w.step_check(&mut evals);
        let (key, shared) = w.key();
        let mut probed = false;
        if viol.is_none() && !seen.contains(&key) {
            probed = true;
            viol = w.probes(&mut evals, selftest);
        }
        out.push(TR { ops: p.len() as u64, path: p, key, shared, viol, evals, probed });
    }
    out
}

struct PartQ {
    depth: usize,
    states: u64,
    shared_states: u64,
    transitions: u64,
    ops_run: u64,
    evals: u64,
    probed: u64,
    violating: u64,
    by_sig: BTreeMap<String, u64>,
    per_level: Vec<(usize, u64, u64)>,
}

fn part_q(rep: &mut Report, depth: usize, selftest: &str) -> PartQ {
    let mut seen: HashSet<String> = HashSet::new();
    seen.insert(World::new(selftest).key().0);
    let mut frontier: Vec<Vec<Op>> = vec![vec![]];
    let mut q = PartQ { depth, states: 1, shared_states: 0, transitions: 0, ops_run: 0, evals: 0, probed: 0, violating: 0, by_sig: BTreeMap::new(), per_level: vec![] };
    let mut sample_done = false;
    for d in 1..=depth {
        let results: Vec<Vec<TR>> = frontier.par_iter().map(|p| expand(p, &seen, selftest)).collect();
        let mut next = vec![];
        let mut new_states = 0u64;
        for tr in results.into_iter().flatten() {
            q.transitions += 1;
            q.ops_run += tr.ops;
            q.evals += tr.evals;
            q.probed += u64::from(tr.probed);
            if let Some((sig, msg)) = tr.viol {
                q.violating += 1;
                *q.by_sig.entry(sig.clone()).or_default() += 1;
                rep.violation(sig, format!("{:?}: {msg}", show_path(&tr.path)), json!({"part":"Q","ops": tr.path, "ops_readable": show_path(&tr.path)}));
                continue; // a state where the property already failed is not expanded
            }
            if seen.insert(tr.key.clone()) {
                new_states += 1;
                if tr.shared {
                    q.shared_states += 1;
                    if !sample_done && d >= 4 {
                        sample_done = true;
                        rep.sample(json!({"part":"Q","ops": show_path(&tr.path), "state": tr.key}));
                    }
                }
                next.push(tr.path);
            }
        }
        q.states += new_states;
        q.per_level.push((d, frontier.len() as u64, new_states));
        frontier = next;
    }
    q
}

fn replay_q(rep: &mut Report, ops: Vec<Op>, selftest: &str) {
    let mut w = World::new(selftest);
    let mut evals = 0;
    for (i, &op) in ops.iter().enumerate() {
        if !w.enabled().contains(&op) {
            machinery(&format!("replay: op {i} {op:?} not enabled"));
        }
        w.apply(op);
        eprintln!("  {:<28} chunks={:?}", show(op), chunk_table(&w.blob));
        if let Some((sig, msg)) = w.step_check(&mut evals) {
            rep.violation(sig, format!("{:?}: {msg}", show_path(&ops[..=i])), json!({"part":"Q","ops": &ops[..=i]}));
            return;
        }
    }
    if let Some((sig, msg)) = w.probes(&mut evals, selftest) {
        rep.violation(sig, format!("{:?}: {msg}", show_path(&ops)), json!({"part":"Q","ops": ops}));
    }
}

// =================================================================================== Part E1
#[derive(Clone, Debug)]
enum SOp {
    Put(&'static str),
    /// put then delete: leaves chunks with zero references behind
    PutDel(&'static str),
}
#[derive(Clone, Debug)]
enum TOp {
    Put(&'static str),
    Stream(&'static [&'static str]),
    /// delete the artifact created by setup op #i
    Delete(usize),
    Gc,
    FullGc,
}
#[derive(Clone, Copy, PartialEq, Eq, Debug)]
enum Collector {
    None,
    Gc,
    FullGc,
}
#[derive(Clone)]
struct Scn {
    name: &'static str,
    setup: Vec<SOp>,
    /// advance the clock beyond gc_min_age after the setup (so that setup chunks are collectable)
    pre_age: bool,
    threads: Vec<Vec<TOp>>,
    bound_quick: usize,
    bound_thorough: usize,
    thorough_only: bool,
}
impl Scn {
    fn collector(&self) -> Collector {
        let mut c = Collector::None;
        for t in &self.threads {
            for op in t {
                match op {
                    TOp::Gc => c = Collector::Gc,
                    TOp::FullGc => c = Collector::FullGc,
                    _ => {}
                }
            }
        }
        c
    }
}

fn scenarios() -> Vec<Scn> {
    use SOp::{Put as SP, PutDel as SPD};
    use TOp::*;
    vec![
        Scn { name: "put(A)|delete(A)", setup: vec![SP("aaaa")], pre_age: false, threads: vec![vec![Put("aaaa")], vec![Delete(0)]], bound_quick: 3, bound_thorough: 4, thorough_only: false },
        Scn { name: "put(AB)|delete(A)", setup: vec![SP("aaaa")], pre_age: false, threads: vec![vec![Put("aaaabbbb")], vec![Delete(0)]], bound_quick: 3, bound_thorough: 4, thorough_only: false },
        Scn { name: "put(A)|put(A)", setup: vec![], pre_age: false, threads: vec![vec![Put("aaaa")], vec![Put("aaaa")]], bound_quick: 3, bound_thorough: 4, thorough_only: false },
        Scn { name: "put(AB)|delete(AB)", setup: vec![SP("aaaabbbb")], pre_age: false, threads: vec![vec![Put("aaaabbbb")], vec![Delete(0)]], bound_quick: 3, bound_thorough: 4, thorough_only: false },
        Scn { name: "delete(A#0)|delete(A#1);A#2 stays", setup: vec![SP("aaaa"), SP("aaaa"), SP("aaaa")], pre_age: false, threads: vec![vec![Delete(0)], vec![Delete(1)]], bound_quick: 3, bound_thorough: 4, thorough_only: false },
        Scn { name: "put(A)|gc;orphan A old", setup: vec![SPD("aaaa")], pre_age: true, threads: vec![vec![Put("aaaa")], vec![Gc]], bound_quick: 3, bound_thorough: 4, thorough_only: false },
        Scn { name: "delete(A)|gc;orphan B old", setup: vec![SP("aaaa"), SPD("bbbb")], pre_age: true, threads: vec![vec![Delete(0)], vec![Gc]], bound_quick: 3, bound_thorough: 4, thorough_only: false },
        Scn { name: "put(AB)|full_gc", setup: vec![], pre_age: false, threads: vec![vec![Put("aaaabbbb")], vec![FullGc]], bound_quick: 3, bound_thorough: 4, thorough_only: false },
        Scn { name: "stream(aa,aabb,bb)|full_gc;A live", setup: vec![SP("aaaa")], pre_age: false, threads: vec![vec![Stream(&["aa", "aabb", "bb"])], vec![FullGc]], bound_quick: 3, bound_thorough: 4, thorough_only: false },
        Scn { name: "put(AB)|delete(A)|gc", setup: vec![SP("aaaa")], pre_age: true, threads: vec![vec![Put("aaaabbbb")], vec![Delete(0)], vec![Gc]], bound_quick: 2, bound_thorough: 3, thorough_only: false },
        Scn { name: "put(AB)|delete(A)|full_gc", setup: vec![SP("aaaa")], pre_age: false, threads: vec![vec![Put("aaaabbbb")], vec![Delete(0)], vec![FullGc]], bound_quick: 2, bound_thorough: 3, thorough_only: false },
        Scn { name: "stream(a,aaa,bbbb)|delete(A)|gc", setup: vec![SP("aaaa")], pre_age: true, threads: vec![vec![Stream(&["a", "aaa", "bbbb"])], vec![Delete(0)], vec![Gc]], bound_quick: 2, bound_thorough: 3, thorough_only: false },
        Scn { name: "put(A)|put(AB)|delete(A)", setup: vec![SP("aaaa")], pre_age: false, threads: vec![vec![Put("aaaa")], vec![Put("aaaabbbb")], vec![Delete(0)]], bound_quick: 2, bound_thorough: 3, thorough_only: true },
        Scn { name: "put(AB)|put(A)|delete(A)|gc", setup: vec![SP("aaaa")], pre_age: true, threads: vec![vec![Put("aaaabbbb")], vec![Put("aaaa")], vec![Delete(0)], vec![Gc]], bound_quick: 1, bound_thorough: 2, thorough_only: true },
        Scn { name: "put(A)|delete(A);gc", setup: vec![SP("aaaa")], pre_age: true, threads: vec![vec![Put("aaaa")], vec![Delete(0), Gc]], bound_quick: 3, bound_thorough: 4, thorough_only: true },
    ]
}

#[derive(Clone, Debug)]
enum TRes {
    Created(String, Vec<u8>),
    CreateErr(String),
    Deleted(usize, Result<(), String>),
    Collected(&'static str, usize),
}

fn run_top(blob: &BlobStore, op: &TOp, setup_ids: &[String]) -> TRes {
    match op {
        TOp::Put(c) => match now(blob.put("f", c.as_bytes(), PutOptions::new())) {
            Ok(id) => TRes::Created(id, c.as_bytes().to_vec()),
            Err(e) => TRes::CreateErr(e.to_string()),
        },
        TOp::Stream(pieces) => {
            let r = (|| -> Result<String, String> {
                let mut w = now(blob.writer("f", PutOptions::new())).map_err(|e| e.to_string())?;
                for p in pieces.iter() {
                    now(w.write(p.as_bytes())).map_err(|e| e.to_string())?;
                }
                now(w.finish()).map_err(|e| e.to_string())
            })();
            match r {
                Ok(id) => TRes::Created(id, pieces.concat().into_bytes()),
                Err(e) => TRes::CreateErr(e),
            }
        }
        TOp::Delete(i) => TRes::Deleted(*i, now(blob.delete(&setup_ids[*i])).map_err(|e| e.to_string())),
        TOp::Gc => TRes::Collected("gc", now(blob.gc()).map(|g| g.deleted).unwrap_or(usize::MAX)),
        TOp::FullGc => TRes::Collected("full_gc", now(blob.full_gc()).map(|g| g.deleted).unwrap_or(usize::MAX)),
    }
}

#[derive(Clone, Debug, Default, Serialize, Deserialize)]
struct VSample {
    sig: String,
    message: String,
    choices: Vec<usize>,
    threads: Vec<usize>,
    preemptions: usize,
}
#[derive(Default)]
struct Acc {
    by_sig: BTreeMap<String, u64>,
    best: BTreeMap<String, VSample>,
    ok_sample: Option<(String, Vec<usize>)>,
}

struct Judged {
    outcome: String,
    viol: Option<(String, String)>,
}

/// Sequential continuation after quiescence (main thread, not scheduled).
fn judge(scn: &Scn, blob: &BlobStore, setup: &[(String, Vec<u8>, bool)], stamped: &[Vec<(TRes, u64)>], selftest: &str) -> Judged {
    // completion order of the operations (logical stamps) is part of the observable outcome
    let mut order: Vec<(u64, String)> = vec![];
    for (t, rs) in stamped.iter().enumerate() {
        for (k, (_, st)) in rs.iter().enumerate() {
            order.push((*st, format!("t{t}.{k}")));
        }
    }
    order.sort();
    let order: Vec<String> = order.into_iter().map(|x| x.1).collect();
    let results: Vec<Vec<TRes>> = stamped.iter().map(|rs| rs.iter().map(|x| x.0.clone()).collect()).collect();
    let results = &results[..];
    // reference: which artifacts exist and with which bytes
    let mut arts: Vec<(String, Vec<u8>)> = vec![];
    let mut deleted: BTreeSet<usize> = BTreeSet::new();
    let mut tres = String::new();
    for (t, rs) in results.iter().enumerate() {
        for r in rs {
            match r {
                TRes::Created(_, b) => tres.push_str(&format!("t{t}:created({});", s(b))),
                TRes::CreateErr(e) => tres.push_str(&format!("t{t}:create-err({e});")),
                TRes::Deleted(i, Ok(())) => {
                    deleted.insert(*i);
                    tres.push_str(&format!("t{t}:deleted#{i};"));
                }
                TRes::Deleted(i, Err(e)) => tres.push_str(&format!("t{t}:delete#{i}-err({e});")),
                TRes::Collected(w, n) => tres.push_str(&format!("t{t}:{w}->{n};")),
            }
        }
    }
    for (i, (id, bytes, live)) in setup.iter().enumerate() {
        if *live && !deleted.contains(&i) {
            arts.push((id.clone(), bytes.clone()));
        }
    }
    for rs in results {
        for r in rs {
            if let TRes::Created(id, b) = r {
                let mut want = b.clone();
                if selftest == "e1" {
                    want[0] ^= 1;
                }
                arts.push((id.clone(), want));
            }
        }
    }
    let table0 = chunk_table(blob);
    let mut outcome = format!("{tres} completed={order:?} chunks@quiescence={table0:?}");
    let coll = scn.collector();
    let check_all = |arts: &[(String, Vec<u8>)]| -> Option<String> {
        for (id, bytes) in arts {
            if let Err(e) = read_check(blob, id, bytes) {
                return Some(format!("artifact {:?}: {e}", s(bytes)));
            }
        }
        None
    };
    // phase 1: at quiescence
    if let Some(e) = check_all(&arts) {
        let sig = match coll {
            Collector::FullGc => SIG_FULLGC.to_string(),
            Collector::Gc => SIG_REFRACE.to_string(),
            Collector::None => "c19:conc:read-mismatch-at-quiescence".to_string(),
        };
        outcome.push_str(" FAIL@quiescence");
        return Judged { outcome, viol: Some((sig, format!("at quiescence {e}; threads: {tres} chunk table {table0:?}"))) };
    }
    // phase 2: a collection must keep every existing artifact
    nvc::env::clock_advance_ms(AGE_MS);
    let _ = now(blob.gc());
    if let Some(e) = check_all(&arts) {
        outcome.push_str(" FAIL@gc");
        return Judged { outcome, viol: Some((SIG_REFRACE.into(), format!("after quiescence, clock+61s;gc: {e}; threads: {tres} chunk table at quiescence {table0:?}"))) };
    }
    // phase 3: drain
    while !arts.is_empty() {
        let (id, bytes) = arts.remove(0);
        if let Err(e) = now(blob.delete(&id)) {
            machinery(&format!("drain delete failed: {e}"));
        }
        nvc::env::clock_advance_ms(AGE_MS);
        let _ = now(blob.gc());
        if let Some(e) = check_all(&arts) {
            outcome.push_str(" FAIL@drain");
            return Judged { outcome, viol: Some((SIG_REFRACE.into(), format!("after quiescence, delete({:?}), clock+61s;gc: {e}; threads: {tres} chunk table at quiescence {table0:?}", s(&bytes)))) };
        }
    }
    nvc::env::clock_advance_ms(AGE_MS);
    let _ = now(blob.full_gc());
    let left = chunk_table(blob);
    if !left.is_empty() {
        outcome.push_str(" FAIL@final");
        return Judged { outcome, viol: Some(("c19:full-gc-leaves-chunks".into(), format!("all artifacts deleted, full_gc left {left:?}"))) };
    }
    Judged { outcome, viol: None }
}

type Built = (Vec<vsched::Body>, Box<dyn FnOnce(&vsched::RunResult) -> Judged>);

fn build(scn: &Scn, selftest: &'static str) -> Built {
    nvc::env::set_thread_seed(0);
    nvc::env::clock_reset();
    nvc::env::clock_freeze(T0);
    let blob = Arc::new(new_blob(CHUNK));
    let mut setup: Vec<(String, Vec<u8>, bool)> = vec![];
    for op in &scn.setup {
        let (c, live) = match op {
            SOp::Put(c) => (*c, true),
            SOp::PutDel(c) => (*c, false),
        };
        let id = match now(blob.put("s", c.as_bytes(), PutOptions::new())) {
            Ok(id) => id,
            Err(e) => machinery(&format!("setup put failed: {e}")),
        };
        if !live {
            if let Err(e) = now(blob.delete(&id)) {
                machinery(&format!("setup delete failed: {e}"));
            }
        }
        setup.push((id, c.as_bytes().to_vec(), live));
    }
    if scn.pre_age {
        nvc::env::clock_advance_ms(AGE_MS);
    }
    let setup_ids: Arc<Vec<String>> = Arc::new(setup.iter().map(|x| x.0.clone()).collect());
    let results: Arc<Vec<Mutex<Vec<(TRes, u64)>>>> = Arc::new((0..scn.threads.len()).map(|_| Mutex::new(vec![])).collect());
    let mut bodies: Vec<vsched::Body> = vec![];
    for (i, ops) in scn.threads.iter().enumerate() {
        let (blob, ids, results, ops) = (blob.clone(), setup_ids.clone(), results.clone(), ops.clone());
        bodies.push(Box::new(move || {
            for op in &ops {
                let r = run_top(&blob, op, &ids);
                results[i].lock().unwrap().push((r, vsched::stamp()));
            }
        }));
    }
    let scn2 = scn.clone();
    let check = Box::new(move |_r: &vsched::RunResult| {
        let res: Vec<Vec<(TRes, u64)>> = results.iter().map(|m| m.lock().unwrap().clone()).collect();
        judge(&scn2, &blob, &setup, &res, selftest)
    });
    (bodies, check)
}

#[derive(Clone, Debug, Default, Serialize, Deserialize)]
struct ScnOut {
    name: String,
    bound: usize,
    threads: usize,
    executions: u64,
    sched_points: u64,
    max_points: usize,
    by_preemptions: BTreeMap<usize, u64>,
    outcomes: BTreeMap<String, u64>,
    violation_count: u64,
    by_sig: BTreeMap<String, u64>,
    samples: Vec<VSample>,
    ok_sample: Option<(String, Vec<usize>)>,
    deadlocks: u64,
    capped: bool,
    machinery: Option<String>,
}

fn run_scn(scn: &Scn, bound: usize, part: (usize, usize), selftest: &'static str) -> ScnOut {
    let acc: Rc<RefCell<Acc>> = Rc::new(RefCell::new(Acc::default()));
    let cfg = vsched::ExploreCfg { bound, part, max_execs: 3_000_000 };
    let stats = vsched::explore(&cfg, || {
        let (bodies, check) = build(scn, selftest);
        let acc = acc.clone();
        (
            bodies,
            Box::new(move |r: &vsched::RunResult| {
                let j = check(r);
                let mut a = acc.borrow_mut();
                match &j.viol {
                    Some((sig, msg)) => {
                        *a.by_sig.entry(sig.clone()).or_default() += 1;
                        let cand = VSample { sig: sig.clone(), message: msg.clone(), choices: r.choices(), threads: r.thread_schedule(), preemptions: r.preemptions() };
                        let better = a.best.get(sig).is_none_or(|b| (cand.preemptions, cand.choices.len()) < (b.preemptions, b.choices.len()));
                        if better {
                            a.best.insert(sig.clone(), cand);
                        }
                    }
                    None => {
                        if a.ok_sample.is_none() && r.preemptions() > 0 {
                            a.ok_sample = Some((j.outcome.clone(), r.thread_schedule()));
                        }
                    }
                }
                vsched::Verdict { outcome: j.outcome, violation: j.viol.map(|(sig, msg)| format!("{sig}|{msg}")) }
            }) as Box<dyn FnOnce(&vsched::RunResult) -> vsched::Verdict>,
        )
    });
    let mut a = std::mem::take(&mut *acc.borrow_mut());
    // deadlocks and panics are judged by vsched itself
    for v in &stats.violations {
        let sig = if v.message.starts_with("deadlock") {
            "c19:conc:deadlock"
        } else if v.message.starts_with("panic") {
            "c19:conc:panic"
        } else {
            continue;
        };
        a.best.entry(sig.to_string()).or_insert(VSample { sig: sig.into(), message: v.message.clone(), choices: v.choices.clone(), threads: v.threads.clone(), preemptions: v.preemptions });
    }
    let judged: u64 = a.by_sig.values().sum();
    if stats.violation_count > judged {
        *a.by_sig.entry("c19:conc:deadlock-or-panic".into()).or_default() += stats.violation_count - judged;
    }
    ScnOut {
        name: scn.name.into(),
        bound,
        threads: scn.threads.len(),
        executions: stats.executions,
        sched_points: stats.sched_points,
        max_points: stats.max_points,
        by_preemptions: stats.by_preemptions,
        outcomes: stats.outcomes,
        violation_count: stats.violation_count,
        by_sig: a.by_sig,
        samples: a.best.into_values().collect(),
        ok_sample: a.ok_sample,
        deadlocks: stats.deadlocks,
        capped: stats.capped,
        machinery: stats.machinery,
    }
}

fn e1_init() {
    vsched::quiet_panics();
    vsched::set_thread_init(|i| nvc::env::set_thread_seed(i as u64 + 1));
}

fn selected(scn: &Scn, thorough: bool, only: &Option<String>) -> bool {
    if let Some(o) = only {
        return scn.name == o;
    }
    thorough || !scn.thorough_only
}

fn e1_worker(part: (usize, usize), thorough: bool, only: Option<String>, selftest: &'static str) -> ! {
    e1_init();
    let mut out = vec![];
    for scn in scenarios() {
        if !selected(&scn, thorough, &only) {
            continue;
        }
        let bound = if thorough { scn.bound_thorough } else { scn.bound_quick };
        out.push(run_scn(&scn, bound, part, selftest));
    }
    nvc::par::emit_result(&out);
    std::process::exit(0);
}

fn merge_e1(all: Vec<Vec<ScnOut>>) -> Vec<ScnOut> {
    let mut merged: Vec<ScnOut> = vec![];
    for w in all {
        for (i, o) in w.into_iter().enumerate() {
            if merged.len() <= i {
                merged.push(ScnOut { name: o.name.clone(), bound: o.bound, threads: o.threads, ..Default::default() });
            }
            let m = &mut merged[i];
            assert_eq!(m.name, o.name);
            m.executions += o.executions;
            m.sched_points += o.sched_points;
            m.max_points = m.max_points.max(o.max_points);
            for (k, v) in o.by_preemptions {
                *m.by_preemptions.entry(k).or_default() += v;
            }
            for (k, v) in o.outcomes {
                *m.outcomes.entry(k).or_default() += v;
            }
            m.violation_count += o.violation_count;
            for (k, v) in o.by_sig {
                *m.by_sig.entry(k).or_default() += v;
            }
            for smp in o.samples {
                match m.samples.iter_mut().find(|x| x.sig == smp.sig) {
                    Some(cur) => {
                        if (smp.preemptions, smp.choices.len(), &smp.choices) < (cur.preemptions, cur.choices.len(), &cur.choices) {
                            *cur = smp;
                        }
                    }
                    None => m.samples.push(smp),
                }
            }
            if m.ok_sample.is_none() {
                m.ok_sample = o.ok_sample;
            }
            m.deadlocks += o.deadlocks;
            m.capped |= o.capped;
            if m.machinery.is_none() {
                m.machinery = o.machinery;
            }
        }
    }
    merged
}

fn replay_e1(rep: &mut Report, name: &str, choices: &[usize], selftest: &'static str) {
    e1_init();
    let Some(scn) = scenarios().into_iter().find(|x| x.name == name) else { machinery("replay: unknown scenario") };
    let (bodies, check) = build(&scn, selftest);
    let r = vsched::run(choices, bodies);
    eprintln!("  schedule (thread per step): {:?}", r.thread_schedule());
    eprintln!("  (thread, lock#, kind) per step: {:?}", r.trace.iter().map(|s| (s.order[s.choice], s.op)).collect::<Vec<_>>());
    if let Some(m) = &r.machinery {
        machinery(m);
    }
    if r.deadlock {
        rep.violation("c19:conc:deadlock", "deadlock", json!({"part":"E1","scenario":name,"choices":choices}));
        return;
    }
    if let Some((t, m)) = r.panics.first() {
        rep.violation("c19:conc:panic", format!("panic in thread {t}: {m}"), json!({"part":"E1","scenario":name,"choices":choices}));
        return;
    }
    let j = check(&r);
    eprintln!("  outcome: {}", j.outcome);
    if let Some((sig, msg)) = j.viol {
        rep.violation(sig, format!("[{name}] {msg}"), json!({"part":"E1","scenario":name,"choices":choices}));
    }
}

// =================================================================================== main
fn main() {
    let args = nvc::report::Args::parse();
    let selftest: &'static str = Box::leak(args.flag("selftest").unwrap_or_default().into_boxed_str());
    let only = args.flag("scenario");
    let parts = args.flag("parts").unwrap_or_else(|| "S,Q,E1".into());
    if let (Some(part), true) = (args.worker, args.rest.iter().any(|a| a == "--e1")) {
        nvc::env::require();
        e1_worker(part, args.thorough(), only, selftest);
    }
    let prop = if selftest.is_empty() { "C19" } else { "C19-selftest" };
    let mut rep = Report::new(prop, "model_checking");
    let thorough = rep.thorough();
    nvc::env::require();
    nvc::env::clock_reset();
    nvc::env::clock_freeze(T0);

    if let Some(path) = rep.args.replay.clone() {
        let v: Value = serde_json::from_str(&std::fs::read_to_string(&path).unwrap_or_else(|e| machinery(&format!("cannot read {path}: {e}")))).unwrap_or_else(|e| machinery(&format!("bad replay json: {e}")));
        let r = v.get("replay").cloned().unwrap_or(v);
        match r.get("part").and_then(Value::as_str) {
            Some("Q") => {
                let ops: Vec<Op> = serde_json::from_value(r["ops"].clone()).unwrap_or_else(|e| machinery(&format!("bad ops: {e}")));
                replay_q(&mut rep, ops, selftest);
            }
            Some("E1") => {
                let choices: Vec<usize> = serde_json::from_value(r["choices"].clone()).unwrap_or_else(|e| machinery(&format!("bad choices: {e}")));
                replay_e1(&mut rep, r["scenario"].as_str().unwrap_or(""), &choices, selftest);
            }
            _ => machinery("replay: only parts Q and E1 can be replayed from a file (part S cases are self-describing)"),
        }
        rep.sample(json!({"replayed": path}));
        rep.finish();
    }

    rep.rule("S: chunk sizes x content sizes {0,1,cs-1,cs,cs+1,2cs-1,2cs,2cs+1,3cs+1,5cs+2} (thorough: 0..=5cs+2) x 2 content families x every split into 3 write() calls (empty writes included), then put of identical bytes, delete of the streamed twin, gc+full_gc; non-trivial = more than one chunk");
    rep.rule("Q: BFS over put(8 contents of sizes 1,3,4,4,5,8,8,9)/open_writer/write(5 pieces)/finish/drop_writer/delete/gc(after clock+61s)/full_gc/repair, chunk size 4, <=3 artifacts incl. one in-flight writer, <=3 writes per writer; dedup on canonical store state (artifact contents+chunk lists, chunk table with stored refcounts, writer progress); non-trivial = states where a chunk has >=2 references; every new state is probed: 4 alterations + removal per chunk per artifact, gc, full_gc, delete-one-by-one with gc, final full_gc");
    rep.rule("E1: every schedule with <= bound preemptions (scheduling point = every parking_lot lock acquisition inside /repo, via vendored lock_api; bound quick/thorough = 3/4 for 2 threads, 2/3 for 3 threads, -/2 for 4 threads) of 2-4 real threads running put/stream/delete/gc/full_gc on overlapping content; after quiescence: read back, gc, drain as in Q; outcome = per-thread results + completion order + chunk table with stored refcounts");
    rep.assume("tensor_blob futures never suspend (checked: a Pending poll aborts the run), so they are driven by a single poll instead of a tokio runtime: tokio is built with parking_lot, a runtime inside a scheduled thread would add irrelevant scheduling points");
    rep.assume("chunk alteration/removal for the integrity clause is injected through BlobStore::store() (the underlying TensorStore)");
    rep.assume("a failed state is not expanded further (part Q); E1 explores each scenario with preemption bound, not all schedules");

    let mut total_states = 0u64;
    let mut total_transitions = 0u64;
    let mut total_evals = 0u64;
    let mut nontrivial = 0u64;

    if parts.contains('S') {
        let ps = part_s(thorough, selftest);
        for (sig, msg, r) in &ps.viol {
            rep.violation(sig.clone(), msg.clone(), r.clone());
        }
        for _ in ps.viol.len() as u64..ps.viol_count {
            rep.violation("c19:stream:more", "", json!({}));
        }
        if let Some(smp) = ps.sample.clone() {
            rep.sample(smp);
        }
        rep.part("S", json!({"contents": ps.contents, "split_cases": ps.cases, "multi_chunk_cases": ps.multi_chunk_cases, "oracle_comparisons": ps.evals, "violating_cases": ps.viol_count}));
        total_transitions += ps.cases;
        total_evals += ps.evals;
        nontrivial += ps.multi_chunk_cases;
        if ps.multi_chunk_cases < 100 {
            rep.machinery("vacuous part S");
        }
    }

    // part Q twice: with the default collector batch (100) and with a batch of 2, smaller than the number
    // of artifacts and chunks the sequences create (the incremental and the full collector scan in batches)
    for (batch, pname) in [(0usize, "Q"), (2, "Q_gc_batch_2")] {
        if !parts.contains('Q') {
            break;
        }
        GC_BATCH.store(batch, std::sync::atomic::Ordering::Relaxed);
        let depth = args.flag("depth").and_then(|d| d.parse().ok()).unwrap_or(if thorough { 8 } else { 6 });
        let q = part_q(&mut rep, depth, selftest);
        rep.part(
            pname,
            json!({"gc_batch_size": if batch == 0 { 100 } else { batch }, "depth": q.depth, "states": q.states, "states_with_shared_chunk": q.shared_states, "transitions": q.transitions, "ops_executed_incl_replay": q.ops_run,
                   "oracle_comparisons": q.evals, "states_probed": q.probed, "violating_transitions": q.violating, "violations_by_signature": q.by_sig,
                   "levels(depth,expanded,new_states)": q.per_level}),
        );
        total_states += q.states;
        total_transitions += q.transitions;
        total_evals += q.evals;
        nontrivial += q.shared_states;
        if q.states < 200 || q.shared_states < 20 {
            rep.machinery("vacuous part Q: too few states");
        }
    }
    GC_BATCH.store(0, std::sync::atomic::Ordering::Relaxed);

    if parts.contains("E1") {
        let n = nvc::par::worker_count();
        let mut extra = vec!["--e1".to_string()];
        if let Some(o) = &only {
            extra.push(format!("--scenario={o}"));
        }
        let all: Vec<Vec<ScnOut>> = nvc::par::spawn_workers(n, &extra);
        let merged = merge_e1(all);
        let mut e1 = serde_json::Map::new();
        let mut e1_samples: Vec<(String, VSample, u64)> = vec![];
        for m in &merged {
            if let Some(msg) = &m.machinery {
                rep.machinery(format!("vsched: {} in scenario {}", msg, m.name));
            }
            if m.capped {
                rep.capped(&format!("E1 scenario {} hit the execution cap", m.name));
            }
            if m.outcomes.len() < 2 {
                rep.machinery(format!("vacuous E1 scenario {}: {} distinct outcome(s)", m.name, m.outcomes.len()));
            }
            for smp in &m.samples {
                e1_samples.push((m.name.clone(), smp.clone(), m.by_sig.get(&smp.sig).copied().unwrap_or(1).max(1)));
            }
            if let Some((o, sch)) = &m.ok_sample {
                rep.sample(json!({"part":"E1","scenario": m.name, "schedule_threads": sch, "outcome": o}));
            }
            let top: Vec<(&String, &u64)> = m.outcomes.iter().take(6).collect();
            e1.insert(
                m.name.clone(),
                json!({"threads": m.threads, "preemption_bound": m.bound, "executions": m.executions, "sched_points": m.sched_points, "max_points_per_execution": m.max_points,
                       "executions_by_preemptions": m.by_preemptions, "distinct_outcomes": m.outcomes.len(), "violating_executions": m.violation_count,
                       "violations_by_signature": m.by_sig, "deadlocks": m.deadlocks, "some_outcomes": top}),
            );
            total_states += m.outcomes.len() as u64;
            total_transitions += m.sched_points;
            total_evals += m.executions;
            nontrivial += m.by_preemptions.iter().filter(|(k, _)| **k > 0).map(|(_, v)| *v).sum::<u64>();
        }
        // simplest counterexamples first (fewest preemptions, then shortest schedule); one artefact per
        // (scenario, signature), the remaining violating executions are only counted
        e1_samples.sort_by(|a, b| (a.1.preemptions, a.1.choices.len(), &a.0).cmp(&(b.1.preemptions, b.1.choices.len(), &b.0)));
        for (name, smp, _) in &e1_samples {
            rep.violation(
                smp.sig.clone(),
                format!("[{name}] {} | schedule (thread per scheduling point) {:?}, {} preemption(s)", smp.message, smp.threads, smp.preemptions),
                json!({"part":"E1","scenario": name, "choices": smp.choices, "threads": smp.threads, "preemptions": smp.preemptions}),
            );
        }
        for (_, smp, n) in &e1_samples {
            if rep.violations.iter().filter(|v| v.signature == smp.sig).count() >= 3 {
                for _ in 1..*n {
                    rep.violation(smp.sig.clone(), "", json!({}));
                }
            }
        }
        rep.part("E1", Value::Object(e1));
        rep.part("E1_workers", json!(n));
    }

    rep.add("states", total_states);
    rep.add("transitions", total_transitions);
    rep.add("traces_validated_against_impl", total_transitions);
    rep.add("evaluations", total_evals);
    rep.add("distinct_nontrivial", nontrivial);
    rep.set("explanation", json!("no separate model: every operation is the real tensor_blob code on a real TensorStore; the reference is the byte strings handed to put/write"));
    rep.finish();
}
