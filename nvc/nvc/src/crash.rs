//! Crash-image enumeration from the real file-I/O op log recorded by envshim.
//!
//! Model (DESIGN §E2): renames, unlinks, truncations and creations are atomic and take effect in
//! log order; a write may be torn at any byte; under power loss the bytes a file gained since its
//! last fsync may be cut at any length (prefix persistence). Directory fsync and block reordering
//! are not modelled.
use std::collections::{BTreeMap, HashMap};

#[derive(Clone, Debug)]
pub enum Op {
    Open { path: String, flags: u32 },
    Write { path: String, off: u64, data: Vec<u8> },
    Trunc { path: String, len: u64 },
    Sync { path: String },
    Rename { from: String, to: String },
    Unlink { path: String },
    Mark { tag: u32, value: u64 },
}

pub fn parse_log(buf: &[u8]) -> Vec<Op> {
    let mut ops = vec![];
    let mut fds: HashMap<u32, String> = HashMap::new();
    let mut p = 0usize;
    while p + 17 <= buf.len() {
        let kind = buf[p];
        let a = u32::from_le_bytes(buf[p + 1..p + 5].try_into().unwrap());
        let b = u64::from_le_bytes(buf[p + 5..p + 13].try_into().unwrap());
        let l = u32::from_le_bytes(buf[p + 13..p + 17].try_into().unwrap()) as usize;
        let d = &buf[p + 17..p + 17 + l];
        p += 17 + l;
        match kind {
            1 => {
                let path = String::from_utf8_lossy(d).to_string();
                fds.insert(a, path.clone());
                ops.push(Op::Open { path, flags: b as u32 });
            }
            2 => {
                if let Some(path) = fds.get(&a) {
                    ops.push(Op::Write { path: path.clone(), off: b, data: d.to_vec() });
                }
            }
            3 => {
                if let Some(path) = fds.get(&a) {
                    ops.push(Op::Trunc { path: path.clone(), len: b });
                }
            }
            4 => {
                if let Some(path) = fds.get(&a) {
                    ops.push(Op::Sync { path: path.clone() });
                }
            }
            5 => {
                let from = String::from_utf8_lossy(&d[..a as usize]).to_string();
                let to = String::from_utf8_lossy(&d[a as usize..]).to_string();
                ops.push(Op::Rename { from, to });
            }
            6 => ops.push(Op::Unlink { path: String::from_utf8_lossy(d).to_string() }),
            7 => {
                fds.remove(&a);
            }
            8 => ops.push(Op::Mark { tag: a, value: b }),
            _ => panic!("corrupt io log"),
        }
    }
    ops
}

#[derive(Clone, Debug, Default, PartialEq, Eq)]
pub struct FileSt {
    pub data: Vec<u8>,
    /// length that is known durable (set by fsync; a fresh/truncated file starts at 0)
    pub synced: usize,
}

/// In-memory file system built by applying log ops.
#[derive(Clone, Debug, Default, PartialEq, Eq)]
pub struct Fs {
    pub files: BTreeMap<String, FileSt>,
}

const O_CREAT: u32 = 0o100;
const O_TRUNC: u32 = 0o1000;

impl Fs {
    /// Start from what is on disk under `root` (all of it counted as durable).
    pub fn from_dir(root: &str) -> Fs {
        let mut fs = Fs::default();
        fn walk(fs: &mut Fs, dir: &std::path::Path) {
            if let Ok(rd) = std::fs::read_dir(dir) {
                for e in rd.flatten() {
                    let p = e.path();
                    if p.is_dir() {
                        walk(fs, &p);
                    } else if let Ok(d) = std::fs::read(&p) {
                        let n = d.len();
                        fs.files.insert(p.to_string_lossy().to_string(), FileSt { data: d, synced: n });
                    }
                }
            }
        }
        walk(&mut fs, std::path::Path::new(root));
        fs
    }
    pub fn apply(&mut self, op: &Op) {
        match op {
            Op::Open { path, flags } => {
                if flags & O_TRUNC != 0 {
                    if let Some(f) = self.files.get_mut(path) {
                        f.data.clear();
                        f.synced = 0;
                    }
                }
                if flags & O_CREAT != 0 {
                    self.files.entry(path.clone()).or_default();
                }
            }
            Op::Write { path, off, data } => self.apply_write(path, *off, data),
            Op::Trunc { path, len } => {
                if let Some(f) = self.files.get_mut(path) {
                    f.data.resize(*len as usize, 0);
                    f.synced = f.synced.min(*len as usize);
                }
            }
            Op::Sync { path } => {
                if let Some(f) = self.files.get_mut(path) {
                    f.synced = f.data.len();
                }
            }
            Op::Rename { from, to } => {
                if let Some(f) = self.files.remove(from) {
                    self.files.insert(to.clone(), f);
                }
            }
            Op::Unlink { path } => {
                self.files.remove(path);
            }
            Op::Mark { .. } => {}
        }
    }
    pub fn apply_write(&mut self, path: &str, off: u64, data: &[u8]) {
        let f = self.files.entry(path.to_string()).or_default();
        let off = off as usize;
        if f.data.len() < off + data.len() {
            f.data.resize(off + data.len(), 0);
        }
        f.data[off..off + data.len()].copy_from_slice(data);
    }
    /// Write this image under `new_root`, mapping paths that start with `old_root`.
    pub fn materialize(&self, old_root: &str, new_root: &str) {
        let _ = std::fs::remove_dir_all(new_root);
        std::fs::create_dir_all(new_root).unwrap();
        for (p, f) in &self.files {
            let Some(rel) = p.strip_prefix(old_root) else { continue };
            let np = format!("{new_root}{rel}");
            if let Some(parent) = std::path::Path::new(&np).parent() {
                let _ = std::fs::create_dir_all(parent);
            }
            std::fs::write(&np, &f.data).unwrap();
        }
    }
}

/// Incremental materialiser: keeps track of what is on disk under `root` and rewrites only the
/// files that differ from the requested image.
pub struct Disk {
    pub root: String,
    current: Fs,
}
impl Disk {
    pub fn new(root: &str) -> Disk {
        let _ = std::fs::remove_dir_all(root);
        std::fs::create_dir_all(root).unwrap();
        Disk { root: root.to_string(), current: Fs::default() }
    }
    /// Make the directory contain exactly `fs`. Must be called again after anything wrote to the
    /// directory (pass `dirty = true` to re-read what is there).
    pub fn set(&mut self, fs: &Fs, dirty: bool) {
        if dirty {
            self.current = Fs::from_dir(&self.root);
        }
        let stale: Vec<String> = self.current.files.keys().filter(|p| !fs.files.contains_key(*p)).cloned().collect();
        for p in stale {
            let _ = std::fs::remove_file(&p);
            self.current.files.remove(&p);
        }
        for (p, f) in &fs.files {
            if !p.starts_with(&self.root) {
                continue;
            }
            if self.current.files.get(p).map(|c| &c.data) != Some(&f.data) {
                if let Some(parent) = std::path::Path::new(p).parent() {
                    let _ = std::fs::create_dir_all(parent);
                }
                std::fs::write(p, &f.data).unwrap();
                self.current.files.insert(p.clone(), FileSt { data: f.data.clone(), synced: f.data.len() });
            }
        }
    }
}

/// One crash image: the file system, how many log ops are completely applied, and a label.
#[derive(Clone, Debug)]
pub struct Image {
    pub fs: Fs,
    /// number of log ops fully applied (marks with index < this have been passed)
    pub ops_applied: usize,
    pub label: String,
    /// image needed recovery to drop a torn or unsynced tail
    pub torn: bool,
    /// clean op boundary, or a torn image cut at the first / middle / last byte (structured subset
    /// used to choose continuation points of later epochs)
    pub landmark: bool,
}

pub struct EnumCfg {
    /// also enumerate power-loss images (unsynced appended tails cut at every byte)
    pub power_loss: bool,
    /// enumerate every byte cut of a torn write (true) or only first/middle/last byte cuts (false)
    pub every_byte: bool,
    /// with `every_byte`: writes/tails longer than this get every byte of their first and last 24
    /// bytes plus every 61st byte in between (stated in the evidence; 0 = no limit)
    pub dense_limit: usize,
}

fn cuts_for(cfg: &EnumCfg, lo: usize, hi: usize) -> Vec<usize> {
    if !cfg.every_byte {
        return pick_cuts(lo, hi);
    }
    if cfg.dense_limit == 0 || hi - lo <= cfg.dense_limit {
        return (lo..hi).collect();
    }
    let mut v: Vec<usize> = (lo..lo + 24).chain((lo + 24..hi - 24).step_by(61)).chain(hi - 24..hi).collect();
    v.sort_unstable();
    v.dedup();
    v
}

/// Enumerate crash images of `ops` applied on top of `base`, calling `f` for each.
/// Images are de-duplicated consecutively (identical file systems at adjacent points are skipped
/// unless a mark lies between them — the acknowledged set differs).
pub fn enumerate(base: &Fs, ops: &[Op], cfg: &EnumCfg, mut f: impl FnMut(&Image)) -> u64 {
    let mut fs = base.clone();
    let mut count = 0u64;
    let mut emit = |img: Image, f: &mut dyn FnMut(&Image)| {
        count += 1;
        f(&img);
    };
    let mut last_emitted: Option<Fs> = None;
    for i in 0..=ops.len() {
        // state with i ops applied
        let is_mark_boundary = i > 0 && matches!(ops[i - 1], Op::Mark { .. });
        if last_emitted.as_ref() != Some(&fs) || is_mark_boundary {
            emit(Image { fs: fs.clone(), ops_applied: i, label: format!("after-op-{i}"), torn: false, landmark: true }, &mut f);
            last_emitted = Some(fs.clone());
            if cfg.power_loss {
                // every file's unsynced appended tail cut at every length; one file at a time
                let paths: Vec<String> = fs.files.keys().cloned().collect();
                for p in &paths {
                    let (len, synced) = {
                        let st = &fs.files[p];
                        (st.data.len(), st.synced)
                    };
                    if synced >= len {
                        continue;
                    }
                    let cuts = cuts_for(cfg, synced, len);
                    let marks = pick_cuts(synced, len);
                    for cut in cuts {
                        let mut g = fs.clone();
                        g.files.get_mut(p).unwrap().data.truncate(cut);
                        emit(Image { fs: g, ops_applied: i, label: format!("after-op-{i}-powerloss-{}@{cut}", short(p)), torn: true, landmark: marks.contains(&cut) }, &mut f);
                    }
                }
                // all files at their synced length simultaneously
                if fs.files.values().filter(|s| s.synced < s.data.len()).count() > 1 {
                    let mut g = fs.clone();
                    for s in g.files.values_mut() {
                        let n = s.synced;
                        s.data.truncate(n);
                    }
                    emit(Image { fs: g, ops_applied: i, label: format!("after-op-{i}-powerloss-all-synced"), torn: true, landmark: true }, &mut f);
                }
            }
        }
        if i == ops.len() {
            break;
        }
        if let Op::Write { path, off, data } = &ops[i] {
            if data.len() > 1 {
                let cuts = cuts_for(cfg, 1, data.len());
                let marks = pick_cuts(1, data.len());
                for cut in cuts {
                    let mut g = fs.clone();
                    g.apply_write(path, *off, &data[..cut]);
                    emit(Image { fs: g, ops_applied: i, label: format!("torn-op-{i}-{}@{cut}/{}", short(path), data.len()), torn: true, landmark: marks.contains(&cut) }, &mut f);
                }
            }
        }
        fs.apply(&ops[i]);
    }
    count
}

fn pick_cuts(lo: usize, hi: usize) -> Vec<usize> {
    let mut v = vec![lo, (lo + hi) / 2, hi - 1];
    v.sort_unstable();
    v.dedup();
    v.retain(|&c| c >= lo && c < hi);
    v
}
fn short(p: &str) -> &str {
    p.rsplit('/').next().unwrap_or(p)
}

/// Index in `ops` just past the mark with (`tag`,`value`), if present.
pub fn mark_pos(ops: &[Op], tag: u32, value: u64) -> Option<usize> {
    ops.iter().position(|o| matches!(o, Op::Mark { tag: t, value: v } if *t == tag && *v == value)).map(|i| i + 1)
}
