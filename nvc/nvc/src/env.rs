//! FFI to envshim.so (LD_PRELOAD): deterministic entropy, virtual clock, file-I/O op log.
use std::ffi::{c_void, CString};

fn sym(name: &str) -> *mut c_void {
    let c = CString::new(name).unwrap();
    unsafe { libc::dlsym(libc::RTLD_DEFAULT, c.as_ptr()) }
}

macro_rules! shim_fn {
    ($name:literal, $ty:ty) => {{
        let p = sym($name);
        if p.is_null() {
            eprintln!("MACHINERY envshim.so is not loaded (LD_PRELOAD) — symbol {} missing", $name);
            std::process::exit(2);
        }
        unsafe { std::mem::transmute::<*mut c_void, $ty>(p) }
    }};
}

pub fn present() -> bool {
    !sym("verifenv_present").is_null()
}
pub fn require() {
    if !present() {
        eprintln!("MACHINERY envshim.so is not loaded (run through /verif/check)");
        std::process::exit(2);
    }
}
pub fn set_global_seed(s: u64) {
    shim_fn!("verifenv_set_global_seed", extern "C" fn(u64))(s)
}
pub fn set_thread_seed(label: u64) {
    shim_fn!("verifenv_set_thread_seed", extern "C" fn(u64))(label)
}
pub fn clock_advance_ms(ms: i64) {
    shim_fn!("verifenv_clock_advance_ms", extern "C" fn(i64))(ms)
}
pub fn clock_reset() {
    shim_fn!("verifenv_clock_reset", extern "C" fn())()
}
/// per-thread virtual time: only the calling thread's clock moves
pub fn clock_thread_advance_ms(ms: i64) {
    shim_fn!("verifenv_clock_thread_advance_ms", extern "C" fn(i64))(ms)
}
pub fn clock_thread_reset() {
    shim_fn!("verifenv_clock_thread_reset", extern "C" fn())()
}
pub fn clock_freeze(epoch_s: i64) {
    shim_fn!("verifenv_clock_freeze", extern "C" fn(i64))(epoch_s)
}
pub fn clock_unfreeze() {
    shim_fn!("verifenv_clock_unfreeze", extern "C" fn())()
}
pub fn io_begin(root: &str) {
    let c = CString::new(root).unwrap();
    shim_fn!("verifenv_io_begin", extern "C" fn(*const libc::c_char))(c.as_ptr())
}
pub fn io_end() {
    shim_fn!("verifenv_io_end", extern "C" fn())()
}
pub fn io_clear() {
    shim_fn!("verifenv_io_clear", extern "C" fn())()
}
pub fn io_mark(tag: u32, value: u64) {
    shim_fn!("verifenv_io_mark", extern "C" fn(u32, u64))(tag, value)
}
pub fn io_log() -> Vec<u8> {
    let len = shim_fn!("verifenv_io_len", extern "C" fn() -> usize)();
    let mut buf = vec![0u8; len];
    let n = shim_fn!("verifenv_io_copy", extern "C" fn(*mut u8, usize) -> usize)(buf.as_mut_ptr(), len);
    buf.truncate(n);
    buf
}

/// Per-process scratch directory on tmpfs; removed by `scratch_cleanup` (and by the driver).
pub fn scratch_root() -> String {
    let base = std::env::var("VERIF_SCRATCH").unwrap_or_else(|_| "/dev/shm".into());
    let p = format!("{}/verif-{}", base, std::process::id());
    std::fs::create_dir_all(&p).expect("create scratch root");
    p
}
pub fn scratch_cleanup() {
    let base = std::env::var("VERIF_SCRATCH").unwrap_or_else(|_| "/dev/shm".into());
    let _ = std::fs::remove_dir_all(format!("{}/verif-{}", base, std::process::id()));
}

/// Real monotonic seconds (raw syscall: unaffected by the virtual / frozen clock).
pub fn real_now_s() -> f64 {
    let mut ts = libc::timespec { tv_sec: 0, tv_nsec: 0 };
    unsafe { libc::syscall(libc::SYS_clock_gettime, libc::CLOCK_MONOTONIC, &mut ts) };
    ts.tv_sec as f64 + ts.tv_nsec as f64 * 1e-9
}
