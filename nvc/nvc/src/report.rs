//! Result collection, known-findings filter, evidence file, exit code.
use serde_json::{json, Map, Value};
use std::collections::BTreeMap;

#[derive(Clone, Debug)]
pub struct Args {
    pub tier: String,
    pub seed: i64,
    pub replay: Option<String>,
    pub worker: Option<(usize, usize)>,
    pub rest: Vec<String>,
}

impl Args {
    pub fn parse() -> Args {
        let mut tier = std::env::var("VERIF_TIER").unwrap_or_else(|_| "quick".into());
        let seed = std::env::var("VERIF_SEED").ok().and_then(|s| s.parse().ok()).unwrap_or(0);
        let mut replay = None;
        let mut rest = vec![];
        let mut it = std::env::args().skip(1);
        while let Some(a) = it.next() {
            if a == "--tier" {
                tier = it.next().unwrap_or_default();
            } else if let Some(t) = a.strip_prefix("--tier=") {
                tier = t.to_string();
            } else if a == "--replay" {
                replay = it.next();
            } else if a.starts_with("--worker=") {
            } else {
                rest.push(a);
            }
        }
        if tier != "quick" && tier != "thorough" {
            tier = "quick".into();
        }
        Args { tier, seed, replay, worker: crate::par::worker_arg(), rest }
    }
    pub fn thorough(&self) -> bool {
        self.tier == "thorough"
    }
    pub fn flag(&self, name: &str) -> Option<String> {
        let p = format!("--{name}=");
        self.rest.iter().find_map(|a| a.strip_prefix(&p).map(str::to_string))
    }
}

#[derive(Clone, Debug, serde::Serialize, serde::Deserialize)]
pub struct ViolationRec {
    /// stable identification of *what* fails (call site / input shape / history pattern)
    pub signature: String,
    pub message: String,
    pub replay: Value,
}

pub struct Report {
    pub property: String,
    pub level: &'static str,
    pub args: Args,
    t0: f64,
    pub coverage: Map<String, Value>,
    samples: Vec<Value>,
    pub violations: Vec<ViolationRec>,
    violation_total: u64,
    assumptions: Vec<String>,
    machinery: Option<String>,
    parts: BTreeMap<String, Value>,
}

fn verif_dir() -> String {
    std::env::var("VERIF_DIR").unwrap_or_else(|_| "/verif".into())
}

impl Report {
    pub fn new(property: &str, level: &'static str) -> Report {
        let args = Args::parse();
        Report {
            property: property.into(),
            level,
            args,
            t0: crate::env::real_now_s(),
            coverage: Map::new(),
            samples: vec![],
            violations: vec![],
            violation_total: 0,
            assumptions: vec![],
            machinery: None,
            parts: BTreeMap::new(),
        }
    }
    pub fn thorough(&self) -> bool {
        self.args.thorough()
    }
    /// add to an integer coverage counter
    pub fn add(&mut self, key: &str, n: u64) {
        let cur = self.coverage.get(key).and_then(Value::as_u64).unwrap_or(0);
        self.coverage.insert(key.into(), json!(cur + n));
    }
    pub fn set(&mut self, key: &str, v: Value) {
        self.coverage.insert(key.into(), v);
    }
    /// per-part sub-report (bounds completed, counts) shown under coverage.parts
    pub fn part(&mut self, name: &str, v: Value) {
        self.parts.insert(name.into(), v);
    }
    pub fn rule(&mut self, s: &str) {
        let cur = self.coverage.get("rule").and_then(Value::as_str).unwrap_or("").to_string();
        let new = if cur.is_empty() { s.to_string() } else { format!("{cur} | {s}") };
        self.coverage.insert("rule".into(), json!(new));
    }
    pub fn sample(&mut self, v: Value) {
        if self.samples.len() < 12 {
            self.samples.push(v);
        }
    }
    pub fn assume(&mut self, s: &str) {
        self.assumptions.push(s.into());
    }
    pub fn machinery(&mut self, s: impl Into<String>) {
        if self.machinery.is_none() {
            self.machinery = Some(s.into());
        }
    }
    /// the declared bound was not completed (cap hit): never reported as exhaustive
    pub fn capped(&mut self, what: &str) {
        self.coverage.insert("exhaustive".into(), json!(false));
        let mut caps = self.coverage.get("caps_hit").and_then(Value::as_array).cloned().unwrap_or_default();
        caps.push(json!(what));
        self.coverage.insert("caps_hit".into(), Value::Array(caps));
    }
    pub fn violation(&mut self, signature: impl Into<String>, message: impl Into<String>, replay: Value) {
        self.violation_total += 1;
        let signature = signature.into();
        // keep at most 3 artefacts per signature
        if self.violations.iter().filter(|v| v.signature == signature).count() < 3 {
            self.violations.push(ViolationRec { signature, message: message.into(), replay });
        }
    }
    pub fn violation_count(&self) -> u64 {
        self.violation_total
    }

    pub fn finish(mut self) -> ! {
        let dir = verif_dir();
        crate::env::scratch_cleanup();
        let known: Value = std::fs::read_to_string(format!("{dir}/known_findings.json")).ok().and_then(|s| serde_json::from_str(&s).ok()).unwrap_or(json!({"findings": []}));
        let findings: Vec<Value> = known.get("findings").and_then(Value::as_array).cloned().unwrap_or_default();
        let mut matched: BTreeMap<String, (String, u64)> = BTreeMap::new();
        let mut fresh: Vec<&ViolationRec> = vec![];
        for v in &self.violations {
            let hit = findings.iter().find(|f| {
                f.get("property").and_then(Value::as_str) == Some(self.property.as_str())
                    && f.get("signature").and_then(Value::as_str).is_some_and(|s| if let Some(p) = s.strip_suffix('*') { v.signature.starts_with(p) } else { v.signature == s })
            });
            match hit {
                Some(f) => {
                    let id = f.get("id").and_then(Value::as_str).unwrap_or("?").to_string();
                    let what = f.get("what").and_then(Value::as_str).unwrap_or("").to_string();
                    matched.entry(id).or_insert((what, 0)).1 += 1;
                }
                None => fresh.push(v),
            }
        }
        for (id, (what, _)) in &matched {
            println!("KNOWN-FINDING: property={} {} ({})", self.property, what, id);
        }
        let mut replay_paths = vec![];
        if !fresh.is_empty() {
            let rdir = format!("{dir}/replays/{}", self.property);
            let _ = std::fs::create_dir_all(&rdir);
            for (i, v) in fresh.iter().enumerate() {
                let path = format!("{rdir}/{}-{}.json", self.args.tier, i);
                let body = json!({"property": self.property, "signature": v.signature, "message": v.message, "replay": v.replay});
                let _ = std::fs::write(&path, serde_json::to_string_pretty(&body).unwrap());
                println!("VIOLATION property={} replay={}", self.property, path);
                eprintln!("  signature: {}\n  {}", v.signature, v.message);
                replay_paths.push(path);
            }
        }
        let wall = crate::env::real_now_s() - self.t0;
        if !self.parts.is_empty() {
            self.coverage.insert("parts".into(), json!(self.parts));
        }
        if self.samples.is_empty() {
            self.machinery.get_or_insert("no samples recorded".into());
        }
        self.coverage.insert("samples".into(), Value::Array(self.samples.clone()));
        if !self.coverage.contains_key("exhaustive") {
            self.coverage.insert("exhaustive".into(), json!(self.machinery.is_none()));
        }
        self.coverage.insert("known_findings_matched".into(), json!(matched.iter().map(|(k, v)| json!({"id": k, "violating_cases": v.1})).collect::<Vec<_>>()));
        self.coverage.insert("violating_cases_total".into(), json!(self.violation_total));
        if let Some(m) = &self.machinery {
            self.coverage.insert("machinery_error".into(), json!(m));
        }
        let ev = json!({
            "property_id": self.property,
            "tier": self.args.tier,
            "seed": self.args.seed,
            "level": self.level,
            "coverage": self.coverage,
            "assumptions": self.assumptions,
            "wall_s": wall,
            "violations": fresh.len(),
            "replays": replay_paths,
        });
        let _ = std::fs::create_dir_all(format!("{dir}/evidence"));
        let evp = format!("{dir}/evidence/{}.json", self.property);
        if self.args.replay.is_none() {
            std::fs::write(&evp, serde_json::to_string_pretty(&ev).unwrap()).expect("write evidence");
        }
        eprintln!(
            "[{}] tier={} wall={:.1}s violations={} known={} machinery={:?}",
            self.property,
            self.args.tier,
            wall,
            fresh.len(),
            matched.len(),
            self.machinery
        );
        if let Some(m) = &self.machinery {
            eprintln!("MACHINERY {m}");
            std::process::exit(2);
        }
        std::process::exit(if fresh.is_empty() { 0 } else { 1 });
    }
}
