//! nvc — shared machinery for the Neumann model-checking harnesses.
pub mod crash;
pub mod crashx;
pub mod env;
pub mod par;
pub mod report;

pub use report::{Args, Report};
