//! Process-level partitioning: the binary re-executes itself as N workers (`--worker i/n`), each
//! of which prints one `@@RESULT <json>` line; the parent collects them.
use serde::de::DeserializeOwned;
use std::io::Read;
use std::process::{Command, Stdio};

pub fn worker_count() -> usize {
    std::env::var("VERIF_WORKERS").ok().and_then(|s| s.parse().ok()).unwrap_or_else(|| std::thread::available_parallelism().map(|n| n.get()).unwrap_or(8).min(16))
}

pub fn emit_result<T: serde::Serialize>(v: &T) {
    println!("@@RESULT {}", serde_json::to_string(v).unwrap());
}

/// Spawn `n` workers with `extra` arguments appended; a worker that exits non-zero or prints no
/// result is a machinery failure (exit 2).
pub fn spawn_workers<T: DeserializeOwned>(n: usize, extra: &[String]) -> Vec<T> {
    let exe = std::env::current_exe().expect("current_exe");
    let base: Vec<String> = std::env::args().skip(1).filter(|a| !a.starts_with("--worker")).collect();
    let mut kids = vec![];
    for i in 0..n {
        let mut c = Command::new(&exe);
        c.args(&base).args(extra).arg(format!("--worker={i}/{n}")).stdout(Stdio::piped()).stderr(Stdio::inherit());
        kids.push(c.spawn().expect("spawn worker"));
    }
    let mut out = vec![];
    for (i, mut k) in kids.into_iter().enumerate() {
        let mut s = String::new();
        k.stdout.take().unwrap().read_to_string(&mut s).unwrap();
        let st = k.wait().unwrap();
        let line = s.lines().rev().find(|l| l.starts_with("@@RESULT "));
        match (st.success(), line) {
            (true, Some(l)) => out.push(serde_json::from_str(&l["@@RESULT ".len()..]).unwrap_or_else(|e| {
                eprintln!("MACHINERY worker {i} result not parseable: {e}");
                std::process::exit(2)
            })),
            _ => {
                eprintln!("MACHINERY worker {i}/{n} failed: status={st:?}\n{}", s.lines().rev().take(20).collect::<Vec<_>>().join("\n"));
                std::process::exit(2);
            }
        }
    }
    out
}

/// Parse `--worker=i/n`.
pub fn worker_arg() -> Option<(usize, usize)> {
    for a in std::env::args() {
        if let Some(r) = a.strip_prefix("--worker=") {
            let (i, n) = r.split_once('/')?;
            return Some((i.parse().ok()?, n.parse().ok()?));
        }
    }
    None
}
