//! vsched — stateless model checker for real OS threads (CHESS-style).
//!
//! Registered threads run one at a time (token passing). Every acquisition of a
//! `lock_api` lock (all of parking_lot and dashmap, through the vendored `lock_api` shim) is a
//! scheduling point: the thread publishes the lock it is about to take and yields to the
//! scheduler, which hands the token to one *enabled* thread. A schedule is the list of choice
//! indices taken at the scheduling points; `explore` enumerates, by re-execution, every schedule
//! whose number of preemptions is at most the bound (iterative context bounding, no reduction).
use lock_api::verif::{self, HookTable, EXCL, SHARED, UPGRADABLE, UPGRADE};
use std::cell::RefCell;
use std::collections::{BTreeMap, HashMap};
use std::sync::atomic::{AtomicU64, Ordering};
use std::sync::{Arc, Condvar, Mutex};

thread_local! { static CTX: RefCell<Option<(Arc<Shared>, usize)>> = const { RefCell::new(None) }; }

/// Payload used to unwind registered threads when an execution is abandoned (deadlock).
pub struct ExecAbort;

#[derive(Default, Clone, Debug)]
struct LockSt {
    excl: Option<usize>,
    upg: Option<usize>,
    shared: Vec<usize>,
}

#[derive(Clone, Debug, PartialEq)]
enum Pending {
    NotStarted,
    Running,
    Acquire(usize, u8, bool), // addr, kind, is_try
    Yield,
    Finished,
}

#[derive(Clone, Debug)]
pub struct Step {
    /// index into `order` that was taken
    pub choice: usize,
    /// enabled threads in canonical order (current thread first if enabled, then ascending ids)
    pub order: Vec<usize>,
    /// the thread that yielded was itself still enabled (switching away is a preemption)
    pub cur_enabled: bool,
    /// what the chosen thread was about to do: (lock ordinal, kind) or none
    pub op: Option<(usize, u8)>,
}

struct St {
    n: usize,
    running: Option<usize>,
    pending: Vec<Pending>,
    locks: HashMap<usize, LockSt>,
    lock_ids: HashMap<usize, usize>,
    prefix: Vec<usize>,
    step: usize,
    trace: Vec<Step>,
    deadlock: bool,
    abort: bool,
    divergence: Option<String>,
    max_steps: usize,
    step_overflow: bool,
}

struct Shared {
    st: Mutex<St>,
    cv: Condvar,
}

static PROGRESS: AtomicU64 = AtomicU64::new(0);
static LOGICAL: AtomicU64 = AtomicU64::new(0);
static THREAD_INIT: Mutex<Option<fn(usize)>> = Mutex::new(None);

/// Callback run at the start of every registered thread (used to label its entropy stream).
pub fn set_thread_init(f: fn(usize)) {
    *THREAD_INIT.lock().unwrap() = Some(f);
}

/// Logical clock for call/return stamps; strictly increasing, reset at each execution.
pub fn stamp() -> u64 {
    LOGICAL.fetch_add(1, Ordering::SeqCst)
}

fn ctx() -> Option<(Arc<Shared>, usize)> {
    CTX.with(|c| c.borrow().clone())
}

fn enabled_of(st: &St, t: usize) -> bool {
    match &st.pending[t] {
        Pending::Finished | Pending::Running => false,
        Pending::NotStarted | Pending::Yield => true,
        Pending::Acquire(_, _, true) => true,
        Pending::Acquire(a, k, false) => {
            let Some(l) = st.locks.get(a) else { return true };
            match *k {
                EXCL => l.excl.is_none() && l.upg.is_none() && l.shared.is_empty(),
                SHARED => l.excl.is_none(),
                UPGRADABLE => l.excl.is_none() && l.upg.is_none(),
                UPGRADE => l.shared.iter().all(|&h| h == t),
                _ => true,
            }
        }
    }
}

fn pick(st: &mut St, cur: Option<usize>) -> Option<usize> {
    let enabled: Vec<usize> = (0..st.n).filter(|&t| enabled_of(st, t)).collect();
    if enabled.is_empty() {
        return None;
    }
    let mut order = Vec::with_capacity(enabled.len());
    let cur_enabled = cur.is_some_and(|c| enabled.contains(&c));
    if cur_enabled {
        order.push(cur.unwrap());
    }
    for &t in &enabled {
        if !(cur_enabled && Some(t) == cur) {
            order.push(t);
        }
    }
    let choice = if st.step < st.prefix.len() { st.prefix[st.step] } else { 0 };
    if choice >= order.len() {
        st.divergence = Some(format!("replay divergence at step {}: choice {} of {} enabled", st.step, choice, order.len()));
        return None;
    }
    let chosen = order[choice];
    let op = match &st.pending[chosen] {
        Pending::Acquire(a, k, _) => {
            let next = st.lock_ids.len();
            Some((*st.lock_ids.entry(*a).or_insert(next), *k))
        }
        _ => None,
    };
    st.trace.push(Step { choice, order, cur_enabled, op });
    st.step += 1;
    if st.step > st.max_steps {
        st.step_overflow = true;
        return None;
    }
    Some(chosen)
}

fn abort_unwind() -> ! {
    std::panic::resume_unwind(Box::new(ExecAbort))
}

fn yield_point(sh: &Shared, me: usize, p: Pending) {
    let mut st = sh.st.lock().unwrap();
    if st.abort {
        drop(st);
        if p == Pending::Finished || std::thread::panicking() {
            return;
        }
        abort_unwind();
    }
    PROGRESS.fetch_add(1, Ordering::Relaxed);
    st.pending[me] = p.clone();
    match pick(&mut st, Some(me)) {
        None => {
            if st.pending.iter().all(|p| *p == Pending::Finished) {
                st.running = None;
                sh.cv.notify_all();
                return;
            }
            if st.divergence.is_none() && !st.step_overflow {
                st.deadlock = true;
            }
            st.abort = true;
            st.running = None;
            sh.cv.notify_all();
            drop(st);
            if p == Pending::Finished {
                return;
            }
            abort_unwind();
        }
        Some(t) => {
            st.running = Some(t);
            if t != me {
                sh.cv.notify_all();
            }
        }
    }
    if p == Pending::Finished {
        return;
    }
    while st.running != Some(me) && !st.abort {
        st = sh.cv.wait(st).unwrap();
    }
    if st.abort {
        drop(st);
        abort_unwind();
    }
    st.pending[me] = Pending::Running;
}

fn before_acquire(addr: usize, kind: u8, is_try: bool) {
    let Some((sh, me)) = ctx() else { return };
    if std::thread::panicking() {
        return;
    }
    yield_point(&sh, me, Pending::Acquire(addr, kind, is_try));
}
fn after_acquire(addr: usize, kind: u8, ok: bool) {
    let Some((sh, me)) = ctx() else { return };
    if !ok {
        return;
    }
    let mut st = sh.st.lock().unwrap();
    let l = st.locks.entry(addr).or_default();
    match kind {
        EXCL => l.excl = Some(me),
        SHARED => l.shared.push(me),
        UPGRADABLE => l.upg = Some(me),
        UPGRADE => {
            l.upg = None;
            l.excl = Some(me);
        }
        _ => {}
    }
}
/// When set, every lock RELEASE is a scheduling point too (default: acquisitions only). This makes the
/// window between a thread's last unlock inside an operation and the operation's end visible, at the
/// price of roughly twice as many scheduling points; harnesses switch it on for selected small programs.
static RELEASE_POINTS: std::sync::atomic::AtomicBool = std::sync::atomic::AtomicBool::new(false);
pub fn set_release_points(on: bool) {
    RELEASE_POINTS.store(on, std::sync::atomic::Ordering::SeqCst);
}
fn after_release(addr: usize, kind: u8) {
    let Some((sh, me)) = ctx() else { return };
    after_release_bookkeeping(&sh, me, addr, kind);
    if RELEASE_POINTS.load(std::sync::atomic::Ordering::SeqCst) && !std::thread::panicking() {
        yield_point(&sh, me, Pending::Yield);
    }
}
fn after_release_bookkeeping(sh: &Arc<Shared>, me: usize, addr: usize, kind: u8) {
    let mut st = sh.st.lock().unwrap();
    if let Some(l) = st.locks.get_mut(&addr) {
        match kind {
            EXCL => l.excl = None,
            UPGRADABLE => l.upg = None,
            SHARED => {
                if let Some(i) = l.shared.iter().position(|&h| h == me) {
                    l.shared.remove(i);
                }
            }
            _ => {}
        }
        if l.excl.is_none() && l.upg.is_none() && l.shared.is_empty() {
            st.locks.remove(&addr);
        }
    }
}
fn mode_change(addr: usize, from: u8, to: u8) {
    let Some((sh, me)) = ctx() else { return };
    let mut st = sh.st.lock().unwrap();
    let l = st.locks.entry(addr).or_default();
    match from {
        EXCL => l.excl = None,
        UPGRADABLE => l.upg = None,
        _ => {}
    }
    match to {
        SHARED => l.shared.push(me),
        UPGRADABLE => l.upg = Some(me),
        _ => {}
    }
}
static TABLE: HookTable = HookTable { before_acquire, after_acquire, after_release, mode_change };

/// Explicit scheduling point for harness code (e.g. between two operations of one thread it is
/// not needed — lock acquisitions inside the operations are the points).
pub fn yield_now() {
    if let Some((sh, me)) = ctx() {
        yield_point(&sh, me, Pending::Yield);
    }
}

pub struct RunResult {
    pub trace: Vec<Step>,
    pub deadlock: bool,
    /// panic messages of registered threads (other than the abort unwinding)
    pub panics: Vec<(usize, String)>,
    /// machinery failure: replay divergence / step overflow
    pub machinery: Option<String>,
}

impl RunResult {
    pub fn choices(&self) -> Vec<usize> {
        self.trace.iter().map(|s| s.choice).collect()
    }
    /// thread id chosen at every step — the human-readable form of the schedule
    pub fn thread_schedule(&self) -> Vec<usize> {
        self.trace.iter().map(|s| s.order[s.choice]).collect()
    }
    pub fn preemptions(&self) -> usize {
        self.trace.iter().filter(|s| s.cur_enabled && s.choice != 0).count()
    }
}

pub type Body = Box<dyn FnOnce() + Send>;

fn start_watchdog() {
    use std::sync::Once;
    static ONCE: Once = Once::new();
    ONCE.call_once(|| {
        let secs: u64 = std::env::var("VSCHED_WATCHDOG_S").ok().and_then(|s| s.parse().ok()).unwrap_or(60);
        std::thread::spawn(move || {
            let mut last = PROGRESS.load(Ordering::Relaxed);
            let mut idle = 0u64;
            loop {
                std::thread::sleep(std::time::Duration::from_millis(500));
                if ACTIVE.load(Ordering::Relaxed) == 0 {
                    idle = 0;
                    continue;
                }
                let now = PROGRESS.load(Ordering::Relaxed);
                if now == last {
                    idle += 1;
                    if idle >= secs * 2 {
                        eprintln!("MACHINERY vsched watchdog: no scheduling progress for {secs}s (thread blocked outside the scheduler)");
                        std::process::exit(2);
                    }
                } else {
                    idle = 0;
                    last = now;
                }
            }
        });
    });
}
static ACTIVE: AtomicU64 = AtomicU64::new(0);

/// Run `bodies` as registered threads under the schedule `prefix` (choice indices); after the
/// prefix the default policy applies (keep running the current thread, else lowest id).
pub fn run(prefix: &[usize], bodies: Vec<Body>) -> RunResult {
    verif::install(&TABLE);
    start_watchdog();
    LOGICAL.store(0, Ordering::SeqCst);
    let n = bodies.len();
    let sh = Arc::new(Shared {
        st: Mutex::new(St {
            n,
            running: None,
            pending: vec![Pending::NotStarted; n],
            locks: HashMap::new(),
            lock_ids: HashMap::new(),
            prefix: prefix.to_vec(),
            step: 0,
            trace: vec![],
            deadlock: false,
            abort: false,
            divergence: None,
            max_steps: 200_000,
            step_overflow: false,
        }),
        cv: Condvar::new(),
    });
    ACTIVE.store(1, Ordering::Relaxed);
    let init = *THREAD_INIT.lock().unwrap();
    let panics: Arc<Mutex<Vec<(usize, String)>>> = Arc::new(Mutex::new(vec![]));
    let mut hs = vec![];
    for (i, b) in bodies.into_iter().enumerate() {
        let sh2 = sh.clone();
        let panics = panics.clone();
        hs.push(std::thread::spawn(move || {
            if let Some(f) = init {
                f(i);
            }
            {
                let mut st = sh2.st.lock().unwrap();
                while st.running != Some(i) && !st.abort {
                    st = sh2.cv.wait(st).unwrap();
                }
                if st.abort {
                    return;
                }
                st.pending[i] = Pending::Running;
            }
            CTX.with(|c| *c.borrow_mut() = Some((sh2.clone(), i)));
            let r = std::panic::catch_unwind(std::panic::AssertUnwindSafe(b));
            if let Err(e) = r {
                if e.downcast_ref::<ExecAbort>().is_none() {
                    let msg = e
                        .downcast_ref::<String>()
                        .cloned()
                        .or_else(|| e.downcast_ref::<&str>().map(|s| (*s).to_string()))
                        .unwrap_or_else(|| "<non-string panic>".into());
                    panics.lock().unwrap().push((i, msg));
                }
            }
            yield_point(&sh2, i, Pending::Finished);
            CTX.with(|c| *c.borrow_mut() = None);
        }));
    }
    {
        let mut st = sh.st.lock().unwrap();
        match pick(&mut st, None) {
            Some(first) => st.running = Some(first),
            None => st.abort = true,
        }
        sh.cv.notify_all();
    }
    for h in hs {
        let _ = h.join();
    }
    ACTIVE.store(0, Ordering::Relaxed);
    let st = sh.st.lock().unwrap();
    let machinery = st.divergence.clone().or_else(|| st.step_overflow.then(|| format!("more than {} scheduling points in one execution (spin loop?)", st.max_steps)));
    let panics = panics.lock().unwrap().clone();
    RunResult { trace: st.trace.clone(), deadlock: st.deadlock, panics, machinery }
}

/// Install a panic hook that stays silent for `ExecAbort` unwinding and for panics of registered
/// threads (they are reported through `RunResult::panics`).
pub fn quiet_panics() {
    let prev = std::panic::take_hook();
    std::panic::set_hook(Box::new(move |info| {
        if info.payload().downcast_ref::<ExecAbort>().is_some() {
            return;
        }
        if ctx().is_some() {
            return;
        }
        prev(info);
    }));
}

#[derive(Clone, Debug)]
pub struct ExploreCfg {
    pub bound: usize,
    /// this worker's index and the number of workers; first-level subtrees are dealt round-robin
    pub part: (usize, usize),
    pub max_execs: u64,
}

#[derive(Clone, Debug, Default)]
pub struct Violation {
    pub message: String,
    pub choices: Vec<usize>,
    pub threads: Vec<usize>,
    pub preemptions: usize,
}

#[derive(Clone, Debug, Default)]
pub struct ExploreStats {
    pub executions: u64,
    pub sched_points: u64,
    pub max_points: usize,
    pub by_preemptions: BTreeMap<usize, u64>,
    pub outcomes: BTreeMap<String, u64>,
    pub violations: Vec<Violation>,
    pub violation_count: u64,
    pub deadlocks: u64,
    pub capped: bool,
    pub machinery: Option<String>,
    pub sample_schedule: Vec<usize>,
}

/// What the harness's post-run check returns.
pub struct Verdict {
    /// canonical rendering of the observable outcome (for the distinct-outcome count)
    pub outcome: String,
    /// `Some(msg)` when the property is violated in this execution
    pub violation: Option<String>,
}

/// Preemption-bounded exhaustive DFS. `mk` builds fresh state, thread bodies and a checker that is
/// evaluated after the run.
pub fn explore<F>(cfg: &ExploreCfg, mut mk: F) -> ExploreStats
where
    F: FnMut() -> (Vec<Body>, Box<dyn FnOnce(&RunResult) -> Verdict>),
{
    let mut stats = ExploreStats::default();
    let mut stack: Vec<(Vec<usize>, bool)> = vec![(vec![], true)];
    let mut top_index = 0usize;
    while let Some((prefix, is_root)) = stack.pop() {
        if stats.executions >= cfg.max_execs {
            stats.capped = true;
            break;
        }
        let (bodies, check) = mk();
        let r = run(&prefix, bodies);
        if let Some(m) = &r.machinery {
            stats.machinery = Some(format!("{m}; prefix={prefix:?}"));
            break;
        }
        let count_this = !is_root || cfg.part.0 == 0;
        let choices = r.choices();
        if count_this {
            stats.executions += 1;
            stats.sched_points += r.trace.len() as u64;
            stats.max_points = stats.max_points.max(r.trace.len());
            *stats.by_preemptions.entry(r.preemptions()).or_default() += 1;
            if stats.sample_schedule.is_empty() {
                stats.sample_schedule = r.thread_schedule();
            }
            let mut viol = None;
            if r.deadlock {
                stats.deadlocks += 1;
                viol = Some("deadlock: no enabled thread".to_string());
                *stats.outcomes.entry("<deadlock>".into()).or_default() += 1;
            } else if let Some((t, msg)) = r.panics.first() {
                viol = Some(format!("panic in thread {t}: {msg}"));
                *stats.outcomes.entry("<panic>".into()).or_default() += 1;
            } else {
                let v = check(&r);
                *stats.outcomes.entry(v.outcome).or_default() += 1;
                viol = v.violation.or(viol);
            }
            if let Some(message) = viol {
                stats.violation_count += 1;
                if stats.violations.len() < 8 {
                    stats.violations.push(Violation { message, choices: choices.clone(), threads: r.thread_schedule(), preemptions: r.preemptions() });
                }
            }
        }
        let mut cost = 0usize;
        for i in 0..r.trace.len() {
            let s = &r.trace[i];
            if i >= prefix.len() {
                for alt in 1..s.order.len() {
                    let extra = usize::from(s.cur_enabled);
                    if cost + extra <= cfg.bound {
                        if is_root {
                            let mine = top_index % cfg.part.1 == cfg.part.0;
                            top_index += 1;
                            if !mine {
                                continue;
                            }
                        }
                        let mut p = choices[..i].to_vec();
                        p.push(alt);
                        stack.push((p, false));
                    }
                }
            }
            if s.cur_enabled && s.choice != 0 {
                cost += 1;
            }
        }
    }
    stats
}

#[cfg(test)]
mod tests {
    use super::*;
    use parking_lot::Mutex as PMutex;

    fn racy(bound: usize, locked: bool) -> ExploreStats {
        explore(&ExploreCfg { bound, part: (0, 1), max_execs: 1_000_000 }, || {
            let cell = Arc::new(PMutex::new(0u32));
            let big = Arc::new(PMutex::new(()));
            let mut bodies: Vec<Body> = vec![];
            for _ in 0..2 {
                let c = cell.clone();
                let b = big.clone();
                bodies.push(Box::new(move || {
                    let _g = if locked { Some(b.lock()) } else { None };
                    let v = *c.lock();
                    *c.lock() = v + 1;
                }));
            }
            let c = cell.clone();
            (
                bodies,
                Box::new(move |_r: &RunResult| {
                    let v = *c.lock();
                    Verdict { outcome: v.to_string(), violation: (v != 2).then(|| format!("lost update: {v}")) }
                }),
            )
        })
    }

    #[test]
    fn finds_lost_update_with_one_preemption() {
        let s0 = racy(0, false);
        assert_eq!(s0.violation_count, 0);
        let s1 = racy(1, false);
        assert!(s1.violation_count > 0);
        assert_eq!(s1.outcomes.len(), 2);
    }
    #[test]
    fn locked_counter_is_safe() {
        let s = racy(2, true);
        assert_eq!(s.violation_count, 0);
        assert!(s.executions > 3);
    }
    #[test]
    fn replay_is_deterministic() {
        let s1 = racy(2, false);
        let s2 = racy(2, false);
        assert_eq!(s1.executions, s2.executions);
        assert_eq!(s1.violation_count, s2.violation_count);
    }
    #[test]
    fn deadlock_is_reported() {
        let s = explore(&ExploreCfg { bound: 1, part: (0, 1), max_execs: 10_000 }, || {
            let a = Arc::new(PMutex::new(()));
            let b = Arc::new(PMutex::new(()));
            let (a1, b1, a2, b2) = (a.clone(), b.clone(), a.clone(), b.clone());
            let bodies: Vec<Body> = vec![
                Box::new(move || {
                    let _x = a1.lock();
                    let _y = b1.lock();
                }),
                Box::new(move || {
                    let _y = b2.lock();
                    let _x = a2.lock();
                }),
            ];
            (bodies, Box::new(|_r: &RunResult| Verdict { outcome: "ok".into(), violation: None }))
        });
        assert!(s.deadlocks > 0);
    }
}
